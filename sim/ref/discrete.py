"""RefDiscrete: the inductive definition of the README, literally (quadratic, no cleverness).

Conventions fixed by the statement of C01 and pinned by the suite:
  prev/next weak (+inf at the trace boundary), s_prev/s_next strong (-inf), rise/fall at t=0 use no
  predecessor, bounded past operators are -inf/+inf when t-a < 0, bounded future ones when t+a >= |w|.
sqrt / ln / log / unary minus are not in the README table; they mean math.sqrt, math.log(x),
math.log(x, base) and negation (what the three other monitors implement).

This is oracle code (a stub in the sense of the brief), not code under test.
"""
import math

INF = float('inf')


class RefError(Exception):
    """the reference itself cannot give a defined value (NaN, domain error, overflow): discard the case"""


def _chk(v):
    if v != v:
        raise RefError('NaN')
    return v


def _arith(op, a, b=None):
    try:
        if op == 'neg':
            return _chk(-a)
        if op == 'abs':
            return _chk(abs(a))
        if op == 'sqrt':
            return _chk(math.sqrt(a))
        if op == 'exp':
            return _chk(math.exp(a))
        if op == 'ln':
            return _chk(math.log(a))
        if op == '+':
            return _chk(a + b)
        if op == '-':
            return _chk(a - b)
        if op == '*':
            return _chk(a * b)
        if op == '/':
            return _chk(a / b)
        if op == 'pow':
            return _chk(math.pow(a, b))
        if op == 'log':
            return _chk(math.log(a, b))
    except (ValueError, OverflowError, ZeroDivisionError) as e:
        raise RefError(str(e))
    raise KeyError(op)


def pred_value(cmp_, l, r):
    if cmp_ == '==':
        return _chk(-abs(l - r))
    if cmp_ == '!==':
        return _chk(abs(l - r))
    if cmp_ in ('<=', '<'):
        return _chk(r - l)
    if cmp_ in ('>=', '>'):
        return _chk(l - r)
    raise KeyError(cmp_)


def pred_sat(cmp_, l, r):
    return {'==': l == r, '!==': l != r, '<=': l <= r, '<': l < r, '>=': l >= r, '>': l > r}[cmp_]


class Evaluator(object):
    """evaluates one AST on one trace; memoises per node identity key"""

    def __init__(self, data, n, defs=None, pred_hook=None):
        self.data = data
        self.n = n
        self.defs = defs or {}
        self.pred_hook = pred_hook     # pred_hook(node, l_list, r_list) -> list or None
        self.memo = {}

    def ev(self, node):
        from ..specgen import key
        k = key(node)
        if k in self.memo:
            return self.memo[k]
        out = self._ev(node)
        self.memo[k] = out
        return out

    def _ev(self, nd):
        n = self.n
        k = nd[0]
        R = range(n)
        if k == 'var':
            v = self.data[nd[1]]
            if len(v) != n:
                raise RefError('length')
            return list(v)
        if k == 'const':
            return [nd[1]] * n
        if k == 'ref':
            return self.ev(self.defs[nd[1]])
        if k in ('unless', 'unless_b'):
            from ..specgen import desugar
            return self.ev(desugar(nd))
        if k in ('neg', 'abs', 'sqrt', 'exp', 'ln'):
            x = self.ev(nd[1])
            return [_arith(k, x[t]) for t in R]
        if k in ('+', '-', '*', '/', 'pow', 'log'):
            x = self.ev(nd[1])
            y = self.ev(nd[2])
            return [_arith(k, x[t], y[t]) for t in R]
        if k == 'pred':
            x = self.ev(nd[2])
            y = self.ev(nd[3])
            if self.pred_hook is not None:
                h = self.pred_hook(nd, x, y)
                if h is not None:
                    return h
            return [pred_value(nd[1], x[t], y[t]) for t in R]
        if k == 'not':
            x = self.ev(nd[1])
            return [_chk(-x[t]) for t in R]
        if k in ('and', 'or', 'implies', 'iff', 'xor'):
            x = self.ev(nd[1])
            y = self.ev(nd[2])
            if k == 'and':
                return [min(x[t], y[t]) for t in R]
            if k == 'or':
                return [max(x[t], y[t]) for t in R]
            if k == 'implies':
                return [max(-x[t], y[t]) for t in R]
            if k == 'iff':
                return [_chk(-abs(x[t] - y[t])) for t in R]
            return [_chk(abs(x[t] - y[t])) for t in R]
        if k == 'rise':
            x = self.ev(nd[1])
            return [x[t] if t == 0 else min(-x[t - 1], x[t]) for t in R]
        if k == 'fall':
            x = self.ev(nd[1])
            return [-x[t] if t == 0 else min(x[t - 1], -x[t]) for t in R]
        if k == 'prev':
            x = self.ev(nd[1])
            return [INF if t == 0 else x[t - 1] for t in R]
        if k == 's_prev':
            x = self.ev(nd[1])
            return [-INF if t == 0 else x[t - 1] for t in R]
        if k == 'next':
            x = self.ev(nd[1])
            return [INF if t == n - 1 else x[t + 1] for t in R]
        if k == 's_next':
            x = self.ev(nd[1])
            return [-INF if t == n - 1 else x[t + 1] for t in R]
        if k == 'once':
            x = self.ev(nd[1])
            return [max(x[0:t + 1]) for t in R]
        if k == 'historically':
            x = self.ev(nd[1])
            return [min(x[0:t + 1]) for t in R]
        if k == 'eventually':
            x = self.ev(nd[1])
            return [max(x[t:n]) for t in R]
        if k == 'always':
            x = self.ev(nd[1])
            return [min(x[t:n]) for t in R]
        if k == 'since':
            p = self.ev(nd[1])
            q = self.ev(nd[2])
            out = []
            for t in R:
                best = -INF
                m = INF                      # min of p over (t1, t]
                for t1 in range(t, -1, -1):
                    best = max(best, min(q[t1], m))
                    m = min(m, p[t1])
                out.append(best)
            return out
        if k == 'until':
            p = self.ev(nd[1])
            q = self.ev(nd[2])
            out = []
            for t in R:
                best = -INF
                m = INF                      # min of p over [t, t1)
                for t1 in range(t, n):
                    best = max(best, min(q[t1], m))
                    m = min(m, p[t1])
                out.append(best)
            return out
        if k in ('once_b', 'historically_b'):
            a, b = nd[1], nd[2]
            x = self.ev(nd[3])
            out = []
            for t in R:
                if t - a < 0:
                    out.append(-INF if k == 'once_b' else INF)
                    continue
                w = x[max(0, t - b):t - a + 1]
                out.append(max(w) if k == 'once_b' else min(w))
            return out
        if k in ('eventually_b', 'always_b'):
            a, b = nd[1], nd[2]
            x = self.ev(nd[3])
            out = []
            for t in R:
                if t + a >= n:
                    out.append(-INF if k == 'eventually_b' else INF)
                    continue
                w = x[t + a:min(n - 1, t + b) + 1]
                out.append(max(w) if k == 'eventually_b' else min(w))
            return out
        if k == 'since_b':
            a, b = nd[1], nd[2]
            p = self.ev(nd[3])
            q = self.ev(nd[4])
            out = []
            for t in R:
                if t - a < 0:
                    out.append(-INF)
                    continue
                best = -INF
                m = min(p[t - a + 1:t + 1]) if a > 0 else INF        # min of p over (t1, t], t1 = t-a
                for t1 in range(t - a, max(0, t - b) - 1, -1):
                    best = max(best, min(q[t1], m))
                    m = min(m, p[t1])
                out.append(best)
            return out
        if k == 'until_b':
            a, b = nd[1], nd[2]
            p = self.ev(nd[3])
            q = self.ev(nd[4])
            out = []
            for t in R:
                if t + a >= n:
                    out.append(-INF)
                    continue
                best = -INF
                m = min(p[t:t + a]) if a > 0 else INF                # min of p over [t, t1), t1 = t+a
                for t1 in range(t + a, min(n - 1, t + b) + 1):
                    best = max(best, min(q[t1], m))
                    m = min(m, p[t1])
                out.append(best)
            return out
        raise KeyError('RefDiscrete: unknown operator %r' % (k,))


def eval_discrete(node, data, n, defs=None, pred_hook=None):
    return Evaluator(data, n, defs, pred_hook).ev(node)
