"""RefDense: dense-time STL over piecewise-constant, right-continuous signals, by brute force.

Finitary interpretation as stated by C04: a signal given by samples [[t0,v0],...,[tn,vn]] has value vi on
[ti, ti+1) and vn on [tn, +inf) (last value held); temporal windows are closed; since/until are non-strict
(phi has to hold on the closed interval between the witness and t). Every sub-formula phi has a domain
[start(phi), +inf), start = the latest first time-stamp of the variables below it (constants: 0).
Bounded past operators are -inf/+inf where the window begins before start(phi) (as in the discrete README).

A step function is a list of (t, v) with strictly increasing t; the first t is the domain start.
Every operator is evaluated *at candidate instants by its definition* (scan of the segments that meet the
closed window); nothing of the incremental algorithms of rtamt is re-used. Oracle code, not code under test.
"""
import bisect

from .discrete import _arith, pred_value, RefError, _chk

INF = float('inf')


def canon(f):
    out = []
    for t, v in f:
        if out and out[-1][1] == v and type(out[-1][1]) == type(v):
            continue
        if out and out[-1][1] == v:
            continue
        out.append((t, v))
    return out


def from_samples(samples):
    """sample list -> step function; at a repeated time-stamp the later sample wins"""
    out = []
    for t, v in samples:
        if out and out[-1][0] == t:
            out[-1] = (t, v)
        else:
            out.append((t, v))
    return out


def start(f):
    return f[0][0]


def at(f, t):
    """value at instant t >= start(f)"""
    i = bisect.bisect_right([p[0] for p in f], t) - 1
    if i < 0:
        raise RefError('before domain')
    return f[i][1]


def segs(f):
    return [(f[i][0], f[i + 1][0] if i + 1 < len(f) else INF, f[i][1]) for i in range(len(f))]


def restrict(f, s):
    """f on [s, inf)"""
    if s <= f[0][0]:
        return list(f)
    out = [(s, at(f, s))]
    for t, v in f:
        if t > s:
            out.append((t, v))
    return out


def _unary(f, fn):
    return canon([(t, fn(v)) for t, v in f])


def _binary(f, g, fn):
    s = max(start(f), start(g))
    if s == -INF:
        return [(-INF, fn(f[0][1], g[0][1]))]
    ts = sorted(set([s] + [t for t, _ in f if t > s] + [t for t, _ in g if t > s]))
    return canon([(t, fn(at(f, t), at(g, t))) for t in ts])


def refine(f, g):
    """common refinement of two step functions from the later start: list of (t, vf, vg)"""
    s = max(start(f), start(g))
    ts = sorted(set([s] + [t for t, _ in f if t > s] + [t for t, _ in g if t > s]))
    return [(t, at(f, t), at(g, t)) for t in ts]


class DenseEvaluator(object):
    def __init__(self, signals, defs=None, pred_hook=None, tick=0.25):
        self.sig = dict((v, from_samples(signals[v])) for v in signals)
        self.defs = defs or {}
        self.pred_hook = pred_hook
        self.tick = tick
        self.memo = {}

    def ev(self, node):
        from ..specgen import key
        k = key(node)
        if k not in self.memo:
            self.memo[k] = self._ev(node)
        return self.memo[k]

    def _b(self, q):
        return q * self.tick

    def _ev(self, nd):
        k = nd[0]
        if k == 'var':
            f = self.sig[nd[1]]
            if not f:
                raise RefError('empty signal')
            return list(f)
        if k == 'const':
            # a constant is the signal with that value on the monitoring time axis [0, inf) (README: rho(c,w,t) = c for
            # every t of the trace; bounded past operators over it are -inf/+inf while the window begins before 0)
            return [(0.0, nd[1])]
        if k == 'ref':
            return self.ev(self.defs[nd[1]])
        if k in ('unless', 'unless_b'):
            from ..specgen import desugar
            return self.ev(desugar(nd))
        if k in ('neg', 'abs', 'sqrt', 'exp', 'ln'):
            return _unary(self.ev(nd[1]), lambda v: _arith(k, v))
        if k in ('+', '-', '*', '/', 'pow', 'log'):
            return _binary(self.ev(nd[1]), self.ev(nd[2]), lambda a, b: _arith(k, a, b))
        if k == 'pred':
            l = self.ev(nd[2])
            r = self.ev(nd[3])
            if self.pred_hook is not None:
                return _binary(l, r, lambda a, b: self.pred_hook(nd, a, b))
            return _binary(l, r, lambda a, b: pred_value(nd[1], a, b))
        if k == 'not':
            return _unary(self.ev(nd[1]), lambda v: _chk(-v))
        if k == 'and':
            return _binary(self.ev(nd[1]), self.ev(nd[2]), min)
        if k == 'or':
            return _binary(self.ev(nd[1]), self.ev(nd[2]), max)
        if k == 'implies':
            return _binary(self.ev(nd[1]), self.ev(nd[2]), lambda a, b: max(-a, b))
        if k == 'iff':
            return _binary(self.ev(nd[1]), self.ev(nd[2]), lambda a, b: _chk(-abs(a - b)))
        if k == 'xor':
            return _binary(self.ev(nd[1]), self.ev(nd[2]), lambda a, b: _chk(abs(a - b)))
        if k in ('once', 'historically', 'eventually', 'always'):
            f = self.ev(nd[1])
            vals = [v for _, v in f]
            out = []
            for i, (t, v) in enumerate(f):
                if k == 'once':
                    out.append((t, max(vals[:i + 1])))
                elif k == 'historically':
                    out.append((t, min(vals[:i + 1])))
                elif k == 'eventually':
                    out.append((t, max(vals[i:])))
                else:
                    out.append((t, min(vals[i:])))
            return canon(out)
        if k in ('since', 'until'):
            rf = refine(self.ev(nd[1]), self.ev(nd[2]))
            n = len(rf)
            out = []
            for j in range(n):
                best = -INF
                rng = range(0, j + 1) if k == 'since' else range(j, n)
                for i in rng:
                    lo, hi = (i, j) if k == 'since' else (j, i)
                    v = rf[i][2]
                    for m in range(lo, hi + 1):
                        v = min(v, rf[m][1])
                    best = max(best, v)
                out.append((rf[j][0], best))
            return canon(out)
        if k in ('once_b', 'historically_b', 'eventually_b', 'always_b'):
            a, b = self._b(nd[1]), self._b(nd[2])
            f = self.ev(nd[3])
            s = start(f)
            if s == -INF:
                return list(f)       # constant operand: constant result
            sg_ = segs(f)
            past = k in ('once_b', 'historically_b')
            cands = set([s])
            for t, _ in f:
                for d in (a, b):
                    c = t + d if past else t - d
                    if c > s:
                        cands.add(c)
            out = []
            for t in sorted(cands):
                if past:
                    lo, hi = max(s, t - b), t - a
                    if hi < s:
                        out.append((t, -INF if k == 'once_b' else INF))
                        continue
                else:
                    lo, hi = t + a, t + b
                ws = [v for (c0, c1, v) in sg_ if c0 <= hi and c1 > lo]
                out.append((t, max(ws) if k in ('once_b', 'eventually_b') else min(ws)))
            return canon(out)
        if k in ('since_b', 'until_b'):
            a, b = self._b(nd[1]), self._b(nd[2])
            rf = refine(self.ev(nd[3]), self.ev(nd[4]))
            s = rf[0][0]
            if s == -INF:
                raise RefError('constant-only timed since/until')
            n = len(rf)
            ends = [rf[i + 1][0] if i + 1 < n else INF for i in range(n)]
            cands = set([s])
            for (t, _, _) in rf:
                for d in (0.0, a, b):
                    c = t + d if k == 'since_b' else t - d
                    if c > s:
                        cands.add(c)
            ts = [p[0] for p in rf]
            out = []
            for t in sorted(cands):
                j = bisect.bisect_right(ts, t) - 1
                best = -INF
                if k == 'since_b':
                    lo, hi = max(s, t - b), t - a
                    if hi >= s:
                        for i in range(0, j + 1):
                            if rf[i][0] <= hi and ends[i] > lo:
                                v = rf[i][2]
                                for m in range(i, j + 1):
                                    v = min(v, rf[m][1])
                                best = max(best, v)
                else:
                    lo, hi = t + a, t + b
                    for i in range(j, n):
                        if rf[i][0] <= hi and ends[i] > lo:
                            v = rf[i][2]
                            for m in range(j, i + 1):
                                v = min(v, rf[m][1])
                            best = max(best, v)
                out.append((t, best))
            return canon(out)
        raise KeyError('RefDense: unsupported operator %r' % (k,))


def eval_dense(node, signals, defs=None, pred_hook=None, tick=0.25):
    f = DenseEvaluator(signals, defs, pred_hook, tick).ev(node)
    if f is None:
        raise RefError('constant-only formula')
    return f


# ---------------------------------------------------------------------------------------------------
# comparison of an implementation sample list with a reference step function

def check_points(fs, lo, hi):
    """instants at which two step functions have to be compared on [lo, hi]: all break-points and the
    mid-points between consecutive break-points"""
    pts = set([lo, hi])
    for f in fs:
        for t, _ in f:
            if lo <= t <= hi:
                pts.add(t)
    pts = sorted(pts)
    out = []
    for i, p in enumerate(pts):
        out.append(p)
        if i + 1 < len(pts):
            out.append((p + pts[i + 1]) / 2.0)
    return out


def compare(impl_samples, ref, lo, hi, eq):
    """first disagreement between the step function denoted by impl_samples and ref on [lo, hi], or None.
    returns (t, impl_value_or_None, ref_value)"""
    f = from_samples(impl_samples)
    if not f:
        return (lo, None, at(ref, lo))
    for t in check_points([f, ref], lo, hi):
        if t < f[0][0]:
            return (t, None, at(ref, t))
        iv = at(f, t)
        rv = at(ref, t)
        if not eq(iv, rv):
            return (t, iv, rv)
    return None


def nondecreasing(samples):
    return all(samples[i][0] <= samples[i + 1][0] for i in range(len(samples) - 1))
