"""Own AST for STL specifications, printer (with randomised spelling) and typed generator.

AST nodes are JSON lists:
  ["var", name]  ["const", number]  ["ref", name]
  [un, child]                un in TERM_UN | FORM_UN
  [bin, l, r]                bin in TERM_BIN | FORM_BIN
  ["pred", cmp, l, r]        cmp in CMPS
  [tun, lo, hi, child]       tun in TUN      (bounds in ticks, ints)
  [tbin, lo, hi, l, r]       tbin in TBIN
A "tick" is one sampling period in discrete time and a quarter time unit in dense time.
"""
from fractions import Fraction

TERM_UN = ('neg', 'abs', 'sqrt', 'exp', 'ln')
TERM_BIN = ('+', '-', '*', '/', 'pow', 'log')
CMPS = ('<=', '<', '>=', '>', '==', '!==')
BOOL_UN = ('not',)
BOOL_BIN = ('and', 'or', 'implies', 'iff', 'xor')
EVENT = ('rise', 'fall')
SHIFT_PAST = ('prev', 's_prev')
SHIFT_FUT = ('next', 's_next')
PAST_UN = ('once', 'historically')
FUT_UN = ('eventually', 'always')
FORM_UN = BOOL_UN + EVENT + SHIFT_PAST + SHIFT_FUT + PAST_UN + FUT_UN
FORM_BIN = BOOL_BIN + ('since', 'until', 'unless')
TUN = ('once_b', 'historically_b', 'eventually_b', 'always_b')
TBIN = ('since_b', 'until_b', 'unless_b')
UNARY = TERM_UN + FORM_UN
BINARY = TERM_BIN + FORM_BIN

FUTURE_OPS = SHIFT_FUT + FUT_UN + ('until', 'unless', 'eventually_b', 'always_b', 'until_b', 'unless_b')
UNBOUNDED_FUTURE = FUT_UN + ('until', 'unless')
BOUNDED_FUTURE = ('eventually_b', 'always_b', 'until_b', 'unless_b') + SHIFT_FUT
MEMORY_PAST = EVENT + SHIFT_PAST + PAST_UN + ('since', 'once_b', 'historically_b', 'since_b')
DISCRETE_ONLY = EVENT + SHIFT_PAST + SHIFT_FUT
TEMPORAL = EVENT + SHIFT_PAST + SHIFT_FUT + PAST_UN + FUT_UN + ('since', 'until', 'unless') + TUN + TBIN

ALL_OPS = set(TERM_UN + TERM_BIN + BOOL_UN + BOOL_BIN + EVENT + SHIFT_PAST + SHIFT_FUT + PAST_UN + FUT_UN
              + ('since', 'until', 'unless') + TUN + TBIN + ('pred',))

KEYWORD = {
    'not': 'not', 'and': 'and', 'or': 'or', 'implies': 'implies', 'iff': 'iff', 'xor': 'xor',
    'rise': 'rise', 'fall': 'fall', 'prev': 'prev', 's_prev': 's_prev', 'next': 'next', 's_next': 's_next',
    'once': 'once', 'historically': 'historically', 'eventually': 'eventually', 'always': 'always',
    'since': 'since', 'until': 'until', 'unless': 'unless', 'unless_b': 'unless',
    'once_b': 'once', 'historically_b': 'historically', 'eventually_b': 'eventually', 'always_b': 'always',
    'since_b': 'since', 'until_b': 'until',
}
ALIASES = {
    'not': ['not', '!'], 'and': ['and', '&'], 'or': ['or', '|'], 'implies': ['implies', '->'],
    'iff': ['iff', '<->'], 'xor': ['xor'],
    'prev': ['prev', 'Y'], 's_prev': ['s_prev', 'sY'], 'next': ['next', 'X'], 's_next': ['s_next', 'sX'],
    'once': ['once', 'O'], 'historically': ['historically', 'H'], 'eventually': ['eventually', 'F'],
    'always': ['always', 'G'], 'since': ['since', 'S'], 'until': ['until', 'U'], 'unless': ['unless', 'W'],
    'rise': ['rise'], 'fall': ['fall'],
}


# ---------------------------------------------------------------------------------------------------
# structure helpers

def kind(n):
    return n[0]


def children(n):
    k = n[0]
    if k in ('var', 'const', 'ref'):
        return []
    if k == 'pred':
        return [n[2], n[3]]
    if k in TUN:
        return [n[3]]
    if k in TBIN:
        return [n[3], n[4]]
    return list(n[1:])


def with_children(n, ch):
    k = n[0]
    if k in ('var', 'const', 'ref'):
        return list(n)
    if k == 'pred':
        return ['pred', n[1], ch[0], ch[1]]
    if k in TUN:
        return [k, n[1], n[2], ch[0]]
    if k in TBIN:
        return [k, n[1], n[2], ch[0], ch[1]]
    return [k] + list(ch)


def size(n):
    return 1 + sum(size(c) for c in children(n))


def depth(n):
    ch = children(n)
    return 1 + (max(depth(c) for c in ch) if ch else 0)


def walk(n):
    yield n
    for c in children(n):
        for x in walk(c):
            yield x


def ops_of(n):
    return set(x[0] for x in walk(n))


def vars_of(n):
    out = []
    for x in walk(n):
        if x[0] == 'var' and x[1] not in out:
            out.append(x[1])
    return out


def refs_of(n):
    out = []
    for x in walk(n):
        if x[0] == 'ref' and x[1] not in out:
            out.append(x[1])
    return out


def has_var(n):
    return any(x[0] in ('var', 'ref') for x in walk(n))


def subst_refs(n, defs):
    """inline: replace every ["ref", name] by defs[name] (recursively)."""
    if n[0] == 'ref':
        return subst_refs(defs[n[1]], defs)
    return with_children(n, [subst_refs(c, defs) for c in children(n)])


def key(n):
    """hashable structural key"""
    return tuple(key(x) if isinstance(x, list) else x for x in n)


def shape(n):
    """operator skeleton without names/values/bounds (used to count distinct non-trivial cases)"""
    k = n[0]
    if k in ('var', 'const', 'ref'):
        return k[0]
    if k == 'pred':
        return 'p(' + shape(n[2]) + shape(n[3]) + ')'
    return k + '(' + ''.join(shape(c) for c in children(n)) + ')'


def horizon(n, defs=None):
    """RefHorizon: look-ahead in ticks; next counts 1; past operators add nothing."""
    k = n[0]
    if k in ('var', 'const'):
        return 0
    if k == 'ref':
        return horizon(defs[n[1]], defs)
    if k in UNBOUNDED_FUTURE:
        return float('inf')
    hc = max(horizon(c, defs) for c in children(n))
    if k in ('eventually_b', 'always_b', 'until_b', 'unless_b'):
        return hc + n[2]
    if k in SHIFT_FUT:
        return hc + 1
    return hc


# ---------------------------------------------------------------------------------------------------
# printing

def fmt_num(v):
    """decimal literal of a non-negative number accepted by the lexer"""
    if isinstance(v, Fraction):
        if v.denominator == 1:
            return str(v.numerator)
        # exact finite decimal only
        d = v.denominator
        e = 0
        while d % 10 == 0:
            d //= 10
            e += 1
        e2 = e5 = 0
        while d % 2 == 0:
            d //= 2
            e2 += 1
        while d % 5 == 0:
            d //= 5
            e5 += 1
        if d != 1:
            raise ValueError('not a finite decimal: %s' % v)
        digits = e + max(e2, e5)
        scaled = v * (10 ** digits)
        assert scaled.denominator == 1
        s = str(scaled.numerator).rjust(digits + 1, '0')
        return s[:-digits] + '.' + s[-digits:]
    if isinstance(v, int):
        return str(v)
    if v == int(v) and abs(v) < 1e15:
        return repr(float(v))  # '2.0'
    r = repr(float(v))
    if 'inf' in r or 'nan' in r:
        raise ValueError('unprintable constant %r' % v)
    if 'e' in r or 'E' in r:
        from decimal import Decimal
        r = format(Decimal(r), 'f')          # 2e-07 -> 0.0000002 (the same float when read back)
        if len(r) > 24 or float(r) != float(v):
            raise ValueError('unprintable constant %r' % v)
    return r


class Spelling(object):
    """Decides keyword/alias, interval separator and redundant parentheses. rng=None -> canonical."""

    def __init__(self, rng=None, p_alias=0.3, p_paren=0.15):
        self.rng = rng
        self.p_alias = p_alias
        self.p_paren = p_paren

    def kw(self, op):
        base = op[:-2] if op.endswith('_b') else op
        if self.rng is None or self.rng.random() >= self.p_alias:
            return KEYWORD[op]
        al = ALIASES.get(base, [KEYWORD[op]])
        return al[self.rng.randrange(len(al))]

    def sep(self):
        if self.rng is None:
            return ','
        return ',' if self.rng.random() < 0.5 else ':'

    def wrap(self, s):
        if self.rng is not None and self.rng.random() < self.p_paren:
            return '(' + s + ')'
        return s


def default_bounds(lo, hi, sp):
    return '[' + str(lo) + sp.sep() + str(hi) + ']'


def to_text(n, sp=None, bounds=None):
    """Fully parenthesised text. bounds(lo, hi, sp) -> '[..]' renders an interval given in ticks."""
    if sp is None:
        sp = Spelling(None)
    if bounds is None:
        bounds = default_bounds
    return _tt(n, sp, bounds)


def _tt(n, sp, bounds):
    k = n[0]
    if k == 'var' or k == 'ref':
        return n[1]
    if k == 'const':
        v = n[1]
        if v < 0 or (v == 0 and str(float(v)).startswith('-')):
            return '-' + fmt_num(-v)
        return fmt_num(v)
    P = lambda c: '(' + _tt(c, sp, bounds) + ')'
    if k == 'neg':
        return sp.wrap('-' + P(n[1]))
    if k in ('abs', 'sqrt', 'exp', 'ln'):
        return k + P(n[1])
    if k in ('pow', 'log'):
        return k + '(' + _tt(n[1], sp, bounds) + ', ' + _tt(n[2], sp, bounds) + ')'
    if k in ('+', '-', '*', '/'):
        return sp.wrap(P(n[1]) + ' ' + k + ' ' + P(n[2]))
    if k == 'pred':
        return sp.wrap(P(n[2]) + ' ' + n[1] + ' ' + P(n[3]))
    if k in ('rise', 'fall'):
        return k + P(n[1])
    if k in FORM_UN:
        return sp.wrap(sp.kw(k) + ' ' + P(n[1]))
    if k in FORM_BIN:
        return sp.wrap(P(n[1]) + ' ' + sp.kw(k) + ' ' + P(n[2]))
    if k in TUN:
        return sp.wrap(sp.kw(k) + bounds(n[1], n[2], sp) + ' ' + P(n[3]))
    if k in TBIN:
        return sp.wrap(P(n[3]) + ' ' + sp.kw(k) + bounds(n[1], n[2], sp) + ' ' + P(n[4]))
    raise ValueError('unknown node %r' % (k,))


# ---------------------------------------------------------------------------------------------------
# generation

LATTICE = [x * 0.5 for x in range(-8, 9)]


class GenCfg(object):
    def __init__(self, vars=('a', 'b'), ops=None, max_depth=4, max_bound=4, strict_sorts=False,
                 p_reuse=0.0, lattice=None, top_formula=True, min_bound_width=0, allow_const_only=False,
                 p_const_leaf=0.35, p_loose=0.08, pred_var_const=False, hi_min=0, p_near=0.0, p_same_bounds=0.2):
        self.vars = list(vars)
        self.ops = set(ALL_OPS if ops is None else ops)
        self.max_depth = max_depth
        self.max_bound = max_bound
        self.strict_sorts = strict_sorts      # formulas only from predicates; terms only arithmetic
        self.p_reuse = p_reuse                # probability of re-using an already generated sub-tree
        self.lattice = list(LATTICE if lattice is None else lattice)
        self.top_formula = top_formula
        self.allow_const_only = allow_const_only
        self.p_const_leaf = p_const_leaf
        self.p_loose = p_loose
        self.pred_var_const = pred_var_const  # every predicate is  variable CMP constant
        self.hi_min = hi_min
        self.p_near = p_near                  # a re-used sub-tree is sometimes a near copy: one constant differs in the 7th decimal
        self.p_same_bounds = p_same_bounds    # an interval is sometimes the very interval of an earlier (different) operator


class Gen(object):
    def __init__(self, rng, cfg):
        self.rng = rng
        self.cfg = cfg
        self.pool_f = []
        self.pool_t = []
        self.used_bounds = []

    # ---- helpers
    def _pick(self, seq):
        return seq[self.rng.randrange(len(seq))]

    def _allowed(self, group):
        return [o for o in group if o in self.cfg.ops]

    def bound(self):
        b = self._bound()
        self.used_bounds.append(b)
        return b

    def _bound(self):
        mb = self.cfg.max_bound
        if self.used_bounds and self.rng.random() < self.cfg.p_same_bounds:
            return self._pick(self.used_bounds)
        r = self.rng.random()
        if r < 0.15:
            lo = hi = self.rng.randint(0, mb)
        elif r < 0.55:
            lo, hi = 0, self.rng.randint(self.cfg.hi_min, mb)
        else:
            lo = self.rng.randint(0, mb)
            hi = self.rng.randint(lo, mb)
        return lo, hi

    def const(self):
        return ['const', self._pick(self.cfg.lattice)]

    def near_copy(self, f):
        """f with one of its constants moved by a few 1e-7 (two requirements that differ in a late decimal only)"""
        paths = [p for p, x in _subtree_paths(f) if x[0] == 'const']
        if not paths:
            return f
        p = paths[self.rng.randrange(len(paths))]
        x = f
        for i in p:
            x = children(x)[i]
        v = round(x[1] + self.rng.choice([1e-7, 2e-7, 3e-7, 1e-10, 3e-10, 2e-12]), 13)
        return _replace_at(f, p, ['const', v])

    def var(self):
        return ['var', self._pick(self.cfg.vars)]

    # ---- terms
    def term(self, d):
        cfg = self.cfg
        rng = self.rng
        if self.pool_t and rng.random() < cfg.p_reuse:
            return self._pick(self.pool_t)
        un = self._allowed(TERM_UN)
        bi = self._allowed(TERM_BIN)
        if d <= 1 or not (un or bi) or rng.random() < 0.45:
            if (not cfg.strict_sorts) and d > 1 and rng.random() < cfg.p_loose:
                t = self.formula(d - 1)          # arithmetic over a (temporal) sub-formula
            else:
                t = self.var()
            return t
        if un and (not bi or rng.random() < 0.35):
            op = self._pick(un)
            x = self.term(d - 1)
            if op == 'sqrt':
                t = ['sqrt', ['abs', x]]
            elif op == 'ln':
                t = ['ln', ['+', ['abs', x], ['const', 1.0]]]
            elif op == 'exp':
                t = ['exp', x]
            else:
                t = [op, x]
        else:
            op = self._pick(bi)
            x = self.term(d - 1)
            if rng.random() < cfg.p_const_leaf:
                y = self.const()
            else:
                y = self.term(d - 1)
            if rng.random() < 0.3:
                x, y = y, x
            if not cfg.allow_const_only and not has_var(x) and not has_var(y):
                x = self.var()
            if op == '/':
                t = ['/', x, ['+', ['abs', y], ['const', 1.0]]]
            elif op == 'pow':
                t = ['pow', ['+', ['abs', x], ['const', 0.5]], y]
            elif op == 'log':
                t = ['log', ['+', ['abs', x], ['const', 1.0]], ['+', ['abs', y], ['const', 2.0]]]
            else:
                t = [op, x, y]
        self.pool_t.append(t)
        return t

    def pred(self, d):
        cmp_ = self._pick(CMPS)
        if self.cfg.pred_var_const:
            x = self.var()
            y = self.const()
            if self.rng.random() < 0.3:
                x, y = y, x
            return ['pred', cmp_, x, y]
        x = self.term(d - 1)
        if self.rng.random() < 0.5:
            y = self.const()
        else:
            y = self.term(d - 1)
        if self.rng.random() < 0.25:
            x, y = y, x
        if not self.cfg.allow_const_only and not has_var(x) and not has_var(y):
            x = self.var()
        return ['pred', cmp_, x, y]

    # ---- formulas
    def formula(self, d):
        cfg = self.cfg
        rng = self.rng
        if self.pool_f and rng.random() < cfg.p_reuse:
            f = self._pick(self.pool_f)
            if cfg.p_near and rng.random() < cfg.p_near:
                f = self.near_copy(f)
            return f
        groups = []
        if d > 1:
            for name, grp, w in (('bun', BOOL_UN, 2), ('bbin', BOOL_BIN, 4), ('ev', EVENT, 1),
                                 ('shp', SHIFT_PAST, 1.5), ('shf', SHIFT_FUT, 1.5), ('pun', PAST_UN, 2),
                                 ('fun', FUT_UN, 2), ('tun', TUN, 5), ('tbin', TBIN, 2.5),
                                 ('su', ('since', 'until', 'unless'), 2)):
                al = self._allowed(grp)
                if al:
                    groups.append((name, al, w))
        if not groups or rng.random() < 0.22:
            if 'pred' in cfg.ops:
                if (not cfg.strict_sorts) and rng.random() < cfg.p_loose:
                    return self.term(max(1, d - 1))      # a bare term used as a formula
                return self.pred(d)
            return self.term(max(1, d))
        tot = sum(w for _, _, w in groups)
        r = rng.random() * tot
        for name, al, w in groups:
            r -= w
            if r <= 0:
                break
        op = self._pick(al)
        if op in TUN:
            lo, hi = self.bound()
            f = [op, lo, hi, self.formula(d - 1)]
        elif op in TBIN:
            lo, hi = self.bound()
            f = [op, lo, hi, self.formula(d - 1), self.formula(d - 1)]
        elif op in FORM_BIN:
            f = [op, self.formula(d - 1), self.formula(d - 1)]
        else:
            f = [op, self.formula(d - 1)]
        self.pool_f.append(f)
        return f

    def spec(self):
        d = self.rng.randint(min(2, self.cfg.max_depth), self.cfg.max_depth)
        return self.formula(d)


def gen_formula(rng, cfg):
    return Gen(rng, cfg).spec()


# ---------------------------------------------------------------------------------------------------
# shrinking candidates (deterministic, no PRNG)

def shrink_candidates(n):
    """Yield structurally smaller variants of n (children first, then local simplifications)."""
    ch = children(n)
    k = n[0]
    # replace by a child of the same sort where that is plausible
    for c in ch:
        yield c
    if k in TUN:
        lo, hi = n[1], n[2]
        for (l2, h2) in ((0, hi), (lo, lo), (max(0, lo - 1), hi), (lo, max(lo, hi - 1)), (0, 1), (0, 0), (1, 1)):
            if (l2, h2) != (lo, hi) and 0 <= l2 <= h2:
                yield [k, l2, h2, n[3]]
    if k in TBIN:
        lo, hi = n[1], n[2]
        for (l2, h2) in ((0, hi), (lo, lo), (max(0, lo - 1), hi), (lo, max(lo, hi - 1)), (0, 1), (0, 0)):
            if (l2, h2) != (lo, hi) and 0 <= l2 <= h2:
                yield [k, l2, h2, n[3], n[4]]
    if k == 'const' and n[1] not in (0.0, 1.0):
        yield ['const', 1.0]
        yield ['const', 0.0]
    if k not in ('var', 'const', 'ref') and k != 'pred':
        pass
    # recurse
    for i, c in enumerate(ch):
        for c2 in shrink_candidates(c):
            ch2 = list(ch)
            ch2[i] = c2
            yield with_children(n, ch2)


# ---------------------------------------------------------------------------------------------------
# modular specifications (sub-specifications and constants)

def _subtree_paths(n, path=()):
    yield path, n
    for i, c in enumerate(children(n)):
        for x in _subtree_paths(c, path + (i,)):
            yield x


def _replace_at(n, path, new):
    if not path:
        return new
    ch = children(n)
    ch[path[0]] = _replace_at(ch[path[0]], path[1:], new)
    return with_children(n, ch)


def add_near_duplicate(rng, ast, ops=('and', 'or', 'implies')):
    """ast combined with a copy of one of its formula-valued sub-trees in which one constant differs in a late decimal
    (two tolerance bands on the same expression); returns ast unchanged when it has no such sub-tree"""
    cands = [x for p, x in _subtree_paths(ast) if (x[0] == 'pred' or x[0] in FORM_UN + FORM_BIN + TUN + TBIN or x[0] in TEMPORAL)
             and any(y[0] == 'const' for y in walk(x))]
    if not cands:
        return ast
    sub = cands[rng.randrange(len(cands))]
    dup = Gen(rng, GenCfg()).near_copy(sub)
    return [ops[rng.randrange(len(ops))], ast, dup] if rng.random() < 0.5 else [ops[rng.randrange(len(ops))], dup, ast]


TWIN_FAMILIES = [('+', '-', '*'), ('log', 'pow'), ('and', 'or', 'implies', 'iff', 'xor'), ('once', 'historically'), ('eventually', 'always'),
                 ('once_b', 'historically_b'), ('eventually_b', 'always_b'), ('rise', 'fall'), ('prev', 's_prev'), ('next', 's_next'),
                 ('since', 'until'), ('abs', 'neg')]


def add_operator_twin(rng, ast, ops=None):
    """ast combined with a twin of one of its sub-trees: the same operands under another operator of the same family
    (log(A,B) and pow(A,B), once[a,b] p and historically[a,b] p ...). Operands of log are inside the domain of pow and vice versa
    because the generator wraps them; returns ast unchanged when no sub-tree has a usable twin."""
    fam = {}
    for f in TWIN_FAMILIES:
        for o in f:
            fam[o] = [x for x in f if x != o and (ops is None or x in ops)]
    cands = [(p, x) for p, x in _subtree_paths(ast) if fam.get(x[0])]
    if not cands:
        return ast
    # every operator family present gets the same weight (rare operators such as log are not drowned by and/or)
    present = sorted(set(x[0] for _, x in cands))
    pick = present[rng.randrange(len(present))]
    cands = [(p, x) for p, x in cands if x[0] == pick]
    p, x = cands[rng.randrange(len(cands))]
    other = fam[x[0]][rng.randrange(len(fam[x[0]]))]
    twin = [other] + list(x[1:])
    if x[0] == 'log':        # log(|u|+1, |v|+2) -> pow(|u|+1, |v|+2): same operands, both inside both domains
        pass
    if x[0] in TERM_UN + TERM_BIN:
        # term-valued: the twin needs a predicate of its own; take the closest enclosing predicate and swap the term in it
        for k in range(len(p), -1, -1):
            anc = ast
            for i in p[:k]:
                anc = children(anc)[i]
            if anc[0] == 'pred':
                twin = _replace_at(anc, p[k:], twin)
                break
        else:
            return ast
    op = ('and', 'or', 'implies')[rng.randrange(3)]
    return [op, ast, twin] if rng.random() < 0.5 else [op, twin, ast]


def modularize(rng, ast, max_subs=3, prefer_stateful=True, names=('p1', 'p2', 'p3', 'p4')):
    """Extract random sub-trees into named sub-specifications. Returns (defs, top): defs is an ordered list of
    [name, ast] (later ones may refer to earlier ones), top refers to them through ["ref", name]. Every occurrence
    of an extracted sub-tree (structurally equal) is replaced, so a sub-spec may be referenced several times."""
    defs = []
    top = ast
    k = rng.randint(1, max_subs)
    for i in range(k):
        cands = [(p, x) for p, x in _subtree_paths(top) if p and x[0] not in ('var', 'const', 'ref')]
        if not cands:
            break
        if prefer_stateful:
            st = [(p, x) for p, x in cands if any(y[0] in TEMPORAL for y in walk(x))]
            if st and rng.random() < 0.7:
                cands = st
        p, sub = cands[rng.randrange(len(cands))]
        name = names[len(defs)]
        kk = key(sub)

        def repl(n):
            if key(n) == kk:
                return ['ref', name]
            return with_children(n, [repl(c) for c in children(n)])
        top = repl(top)
        defs.append([name, sub])
        if top[0] == 'ref':
            break
    # order: a def extracted later may contain refs to earlier names only if it was extracted from a tree that
    # already had them; refs inside sub are to earlier defs by construction -> definition order = extraction order
    # but an earlier def can not contain a later name, fine. Later defs must be *declared after* the ones they use.
    return order_defs(defs), top


def add_alias(rng, defs, top, name='q1'):
    """an alias sub-specification: a bare non-negative constant ('q1 = 3.0;') or a bare variable ('q1 = a;') gets a name of its
    own; every occurrence of the leaf is replaced by the name, and the literal -c by -(q1) (the same number, used with both
    signs). Returns (defs, top), unchanged when there is no usable leaf."""
    import json as _json
    leaves = sorted(set(_json.dumps(['const', abs(x[1])] if x[0] == 'const' else x)
                        for n_, a in defs + [['', top]] for x in walk(a) if x[0] in ('const', 'var')))
    if not leaves:
        return defs, top
    leaf = _json.loads(leaves[rng.randrange(len(leaves))])

    def al(n):
        if n == leaf:
            return ['ref', name]
        if leaf[0] == 'const' and leaf[1] > 0 and n[0] == 'const' and n[1] == -leaf[1]:
            return ['neg', ['ref', name]]
        return with_children(n, [al(c) for c in children(n)])
    return [[name, leaf]] + [[n_, al(a)] for n_, a in defs], al(top)


def order_defs(defs):
    """topological order so that every definition only refers to earlier ones"""
    d = dict((n, a) for n, a in defs)
    out = []
    done = set()

    def visit(n):
        if n in done:
            return
        for r in refs_of(d[n]):
            visit(r)
        done.add(n)
        out.append([n, d[n]])
    for n, _ in defs:
        visit(n)
    return out


def inline(defs, top):
    return subst_refs(top, dict((n, a) for n, a in defs))


def desugar(n):
    """unless is sugar:  p unless[a,b] q = always[0,b] p or p until[a,b] q ;  p unless q = always p or p until q"""
    if n[0] == 'unless':
        return ['or', ['always', n[1]], ['until', n[1], n[2]]]
    if n[0] == 'unless_b':
        return ['or', ['always_b', 0, n[2], n[3]], ['until_b', n[1], n[2], n[3], n[4]]]
    return n
