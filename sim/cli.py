import os
import sys
import argparse

HERE = os.path.dirname(os.path.dirname(os.path.abspath(__file__)))
if HERE not in sys.path:
    sys.path.insert(0, HERE)


def main():
    ap = argparse.ArgumentParser()
    ap.add_argument('prop')
    ap.add_argument('--tier', default=os.environ.get('VERIF_TIER', 'quick'), choices=['quick', 'thorough'])
    ap.add_argument('--replay')
    ap.add_argument('--digests')
    ap.add_argument('--quiet', action='store_true')
    ap.add_argument('--runs', type=int)
    ap.add_argument('--workers', type=int)
    a = ap.parse_args()
    from sim import core
    try:
        dg = [int(x) for x in a.digests.split(',')] if a.digests else None
        rc = core.run_check(a.prop, a.tier, replay=a.replay, digests=dg, quiet=a.quiet,
                            runs_override=a.runs, workers=a.workers)
    except SystemExit:
        raise
    except BaseException:
        import traceback
        traceback.print_exc()
        print('HARNESS-ERROR property=%s unhandled exception in the harness' % a.prop)
        rc = 2
    sys.stdout.flush()
    sys.exit(rc)


if __name__ == '__main__':
    main()
