"""Unit notations for discrete-time specifications (stub/oracle side).

A notation fixes the sampling period (P, pu), the default unit du (spec.unit; None = library default 's') and how
each bound, given in ticks (1 tick = one sampling period), is written: in the default unit without suffix, with an
explicit unit on both ends, on one end only (the other end then inherits that unit), or with different units.
All spellings produced from one AST under notations with the same tick denote the same durations.
"""
from fractions import Fraction
from .specgen import fmt_num

U = {'s': 10 ** 9, 'ms': 10 ** 6, 'us': 10 ** 3, 'ns': 1}
UNITS = ['s', 'ms', 'us', 'ns']

PERIODS = [(1, 's'), (1, 's'), (1, 's'), (1000, 'ms'), (500, 'ms'), (2, 's'), (100, 'ms'), (250, 'ms'), (1, 'ms'),
           (10, 'us'), (5, 'ns'), (1000000, 'us'),
           (0.5, 's'), (0.25, 's'), (2.0, 's'), (2.5, 'ms'), (500.0, 'ms')]       # periods given as Python floats


def plain_notation():
    return {'period': 1, 'pu': 's', 'du': None, 'tol': 0.1, 'style': 'plain'}


def tick_ns(nt):
    # the period may be a (dyadic) float such as 0.5 or 2.0: exact as a Fraction
    return Fraction(nt['period']) * U[nt['pu']]


def du(nt):
    return nt.get('du') or 's'


def _render(k, nt, u):
    unit = u or du(nt)
    v = Fraction(k * tick_ns(nt), U[unit])
    s = fmt_num(v)
    if len(s) > 14:
        raise ValueError('too long')
    return s


def feasible(k, nt, u):
    try:
        _render(k, nt, u)
        return True
    except ValueError:
        return False


def styles_for(lo, hi, nt):
    out = []
    if feasible(lo, nt, '') and feasible(hi, nt, ''):
        out.append('plain')
    for u in UNITS:
        if feasible(lo, nt, u) and feasible(hi, nt, u):
            out += ['both:' + u, 'end:' + u, 'begin:' + u]
    for u1 in UNITS:
        for u2 in UNITS:
            if u1 != u2 and feasible(lo, nt, u1) and feasible(hi, nt, u2):
                out.append('mixed:' + u1 + ':' + u2)
    return out


def render_interval(lo, hi, nt, style, sep=','):
    if style == 'plain':
        return '[' + _render(lo, nt, '') + sep + _render(hi, nt, '') + ']'
    parts = style.split(':')
    if parts[0] == 'both':
        u = parts[1]
        return '[' + _render(lo, nt, u) + u + sep + _render(hi, nt, u) + u + ']'
    if parts[0] == 'end':
        u = parts[1]
        return '[' + _render(lo, nt, u) + sep + _render(hi, nt, u) + u + ']'
    if parts[0] == 'begin':
        u = parts[1]
        return '[' + _render(lo, nt, u) + u + sep + _render(hi, nt, u) + ']'
    if parts[0] == 'mixed':
        u1, u2 = parts[1], parts[2]
        return '[' + _render(lo, nt, u1) + u1 + sep + _render(hi, nt, u2) + u2 + ']'
    raise ValueError(style)


def bounds_printer(nt, rng):
    """returns bounds(lo, hi, sp) for specgen.to_text. With rng: a random feasible style per bound when the notation
    style is 'random'; otherwise the notation's fixed style (falling back to the first feasible one)."""
    def pr(lo, hi, sp):
        st = nt.get('style', 'plain')
        feas = styles_for(lo, hi, nt)
        if not feas:
            raise ValueError('bound not printable')
        if st == 'random' and rng is not None:
            # bias: plain 40 %, rest uniform
            if 'plain' in feas and rng.random() < 0.4:
                st = 'plain'
            else:
                st = feas[rng.randrange(len(feas))]
        elif st not in feas:
            st = feas[0]
        return render_interval(lo, hi, nt, st, sp.sep())
    return pr


def gen_notation(rng, p_plain=0.45):
    if rng.random() < p_plain:
        return plain_notation()
    P, pu = PERIODS[rng.randrange(len(PERIODS))]
    d = rng.choice([None, None, 's', 'ms', 'us', 'ns'])
    # the default unit must be able to express one tick as a finite decimal (stamps and plain bounds)
    nt = {'period': P, 'pu': pu, 'du': d, 'tol': rng.choice([0.1, 0.1, 0.2, 0.05]), 'style': 'random',
          # how the configuration calls are made: period unit left out when it is the documented default 's'; call order
          'omit_unit': rng.random() < 0.5, 'sampling_first': rng.random() < 0.4, 'force_sampling': rng.random() < 0.3}
    if not feasible(1, nt, ''):
        nt['du'] = pu
    return nt


def stamps(nt, n, t0=0):
    step = Fraction(tick_ns(nt), U[du(nt)])
    out = []
    for i in range(n):
        v = t0 + i * step
        out.append(int(v) if v.denominator == 1 else float(v))
    return out


def spec_config(nt):
    cfg = {}
    if nt.get('du'):
        cfg['unit'] = nt['du']
    if (nt['period'], nt['pu']) != (1, 's') or nt.get('tol', 0.1) != 0.1 or nt.get('force_sampling'):
        cfg['sampling'] = [nt['period'], nt['pu'], nt.get('tol', 0.1)]
        if nt.get('omit_unit'):
            cfg['sampling_omit_unit'] = True
        if nt.get('sampling_first'):
            cfg['sampling_first'] = True
    return cfg


def notation_class(nt):
    if nt.get('style', 'plain') == 'plain' and (nt['period'], nt['pu']) == (1, 's') and not nt.get('du'):
        return 'plain'
    return '%s/%s%s/%s' % (nt.get('style'), nt['period'], nt['pu'], nt.get('du') or '-')
