"""One integer decides everything.

VERIF_SEED -> run seed (splitmix64 over (seed, property id, run index)) -> random.Random(run_seed).
Nothing in the harness draws from any other source: no hash() of strings, no set iteration order, no
wall clock in decision paths.
"""
import os
import random
import hashlib

MASK = (1 << 64) - 1


def splitmix64(x):
    x = (x + 0x9E3779B97F4A7C15) & MASK
    z = x
    z = ((z ^ (z >> 30)) * 0xBF58476D1CE4E5B9) & MASK
    z = ((z ^ (z >> 27)) * 0x94D049BB133111EB) & MASK
    return z ^ (z >> 31)


def _str_to_int(s):
    # stable across processes and PYTHONHASHSEED (unlike hash())
    return int.from_bytes(hashlib.sha256(s.encode('utf-8')).digest()[:8], 'big')


def run_seed(verif_seed, prop_id, k):
    x = splitmix64((verif_seed & MASK) ^ _str_to_int(prop_id))
    x = splitmix64(x ^ (k & MASK))
    return x


def rng_for(verif_seed, prop_id, k):
    return random.Random(run_seed(verif_seed, prop_id, k))


def verif_seed():
    try:
        return int(os.environ.get('VERIF_SEED', '0'))
    except ValueError:
        return 0
