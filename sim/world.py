"""Simulated world: plant values, sensor clocks with faults, dense-time sensors, transports.
Everything here is stub code owned by the simulator. All draws come from the rng handed in; the result
is explicit data that goes into the scenario.
"""
from fractions import Fraction
from .specgen import LATTICE

U = {'s': 10 ** 9, 'ms': 10 ** 6, 'us': 10 ** 3, 'ns': 1}


def gen_values(rng, n, style=None):
    """n sample values; style: lattice (default), ints, floats"""
    if style is None:
        r = rng.random()
        style = 'lattice' if r < 0.72 else ('ints' if r < 0.82 else ('plateau' if r < 0.9 else 'floats'))
    if style == 'bigint':
        # integer samples above 2**53 (epoch nanoseconds, 64-bit counters): exact as Python ints, lossy as floats
        return [1700000000000000000 + rng.randint(-400, 400) for _ in range(n)]
    if style == 'nano':
        # nano-scale physical quantities: consecutive values differ by 1e-10 or less (but exactly representable decisions)
        return [rng.randint(-8, 8) * 1e-10 for _ in range(n)]
    if style == 'plateau':
        # a quantised, slowly changing quantity: two or three levels, held for several samples (equal maxima inside one window)
        levels = [LATTICE[rng.randrange(len(LATTICE))] for _ in range(rng.randint(2, 3))]
        out = [levels[rng.randrange(len(levels))]]
        for _ in range(n - 1):
            out.append(out[-1] if rng.random() < 0.6 else levels[rng.randrange(len(levels))])
        return out
    if style == 'lattice':
        return [LATTICE[rng.randrange(len(LATTICE))] for _ in range(n)]
    if style == 'ints':
        return [rng.randint(-4, 4) for _ in range(n)]
    return [round(rng.uniform(-5, 5), 3) for _ in range(n)]


def gen_trace(rng, vars_, n, p_bigint=0.0, style=None):
    if p_bigint and rng.random() < p_bigint:
        return dict((v, gen_values(rng, n, 'bigint')) for v in vars_)     # all sensors count in the same huge unit
    if style:
        return dict((v, gen_values(rng, n, style)) for v in vars_)
    return dict((v, gen_values(rng, n)) for v in vars_)


def perfect_clock(n, period=1, t0=0):
    return [t0 + i * period for i in range(n)]


def faulty_clock(rng, n, period=1.0, tol=0.1, kinds=None, monotone=True):
    """time-stamps of a sensor whose clock is faulty. Returns (stamps, fired) where fired counts the fault
    kinds that actually changed a stamp. With monotone=True stamps stay strictly increasing."""
    fired = {}
    if kinds is None:
        kinds = [k for k in ('jitter_in', 'jitter_out', 'drift', 'jump', 'offset', 'float_stamps') if rng.random() < 0.4]
    t = 0.0
    if 'offset' in kinds:
        t = float(rng.choice([0.5, 3, 100, 1e6, -2.5]))
        fired['clock_offset'] = 1
    gain = 1.0
    if 'drift' in kinds:
        gain = rng.choice([0.5, 0.9, 1.05, 1.5, 3.0])
        fired['clock_drift'] = 1
    jump_at = rng.randrange(1, n) if ('jump' in kinds and n > 1) else None
    stamps = [t]
    for i in range(1, n):
        gap = period * gain
        if 'jitter_in' in kinds and rng.random() < 0.6:
            gap = gap * (1 + rng.uniform(-0.9, 0.9) * tol)
            fired['clock_jitter_in_band'] = fired.get('clock_jitter_in_band', 0) + 1
        if 'jitter_out' in kinds and rng.random() < 0.4:
            gap = gap * rng.choice([0.3, 0.5, 1.5, 2.5])
            fired['clock_jitter_out_of_band'] = fired.get('clock_jitter_out_of_band', 0) + 1
        if jump_at == i:
            gap += period * rng.choice([10, 1000])
            fired['clock_jump'] = 1
        if monotone and gap <= 0:
            gap = period * 0.01
        t = t + gap
        stamps.append(t)
    if 'float_stamps' not in kinds and all(float(s) == int(s) for s in stamps):
        stamps = [int(s) for s in stamps]
        fired['int_stamps'] = 1
    return stamps, fired


def frac_to_float(fr):
    return fr.numerator / fr.denominator


# ---------------------------------------------------------------------------------------------------
# dense time: every sensor has its own clock; instants are multiples of 1/4 (exact in binary)

def gen_dense_signal(rng, n, start_q=0, max_gap_q=8, style=None, resample_p=0.15):
    """piecewise-constant signal as [[t, v], ...], t = q/4. Redundant re-samples (same value) with
    probability resample_p. Returns (samples, fired)"""
    fired = {}
    q = start_q
    vals = gen_values(rng, n, style)
    out = []
    for i in range(n):
        v = vals[i]
        if i > 0 and rng.random() < resample_p:
            v = out[-1][1]
            fired['resample'] = fired.get('resample', 0) + 1
        out.append([q / 4.0, v])
        q += rng.randint(1, max_gap_q)
    return out, fired


def allen_relation(a0, a1, b0, b1):
    """Allen relation of [a0,a1) and [b0,b1)"""
    if a1 < b0:
        return 'precedes'
    if a1 == b0:
        return 'meets'
    if b1 < a0:
        return 'preceded_by'
    if b1 == a0:
        return 'met_by'
    if a0 == b0 and a1 == b1:
        return 'equals'
    if a0 == b0:
        return 'starts' if a1 < b1 else 'started_by'
    if a1 == b1:
        return 'finishes' if a0 > b0 else 'finished_by'
    if a0 < b0 and a1 > b1:
        return 'contains'
    if b0 < a0 and b1 > a1:
        return 'during'
    if a0 < b0:
        return 'overlaps'
    return 'overlapped_by'


def allen_profile(sa, sb):
    """sequence of Allen relations met when two sample lists are merged (coverage measure)"""
    INF = float('inf')
    ia = [(sa[i][0], sa[i + 1][0] if i + 1 < len(sa) else INF) for i in range(len(sa))]
    ib = [(sb[i][0], sb[i + 1][0] if i + 1 < len(sb) else INF) for i in range(len(sb))]
    rels = []
    i = j = 0
    while i < len(ia) and j < len(ib):
        r = allen_relation(ia[i][0], ia[i][1], ib[j][0], ib[j][1])
        rels.append(r)
        if ia[i][1] < ib[j][1]:
            i += 1
        elif ia[i][1] > ib[j][1]:
            j += 1
        else:
            i += 1
            j += 1
    return rels


def split_batches(samples, cuts):
    """cut a sample list into consecutive batches; cuts = sorted indices in 1..n-1 where a new batch starts"""
    out = []
    prev = 0
    for c in list(cuts) + [len(samples)]:
        out.append(samples[prev:c])
        prev = c
    return out
