"""message type for struct-typed specification variables (imported by the specification through import_module)"""


class Msg(object):
    def __init__(self, value=0.0):
        self.value = value

    def __repr__(self):
        return 'Msg(%r)' % (self.value,)
