"""message types for struct-typed specification variables (imported by the specification through import_module).
A Msg carries the same number at several depths, so that a field path of any length reads it:
    m.value, m.header.value, m.pose.pose.value, m.pose.pose.position.value"""


class Leaf(object):
    def __init__(self, value=0.0):
        self.value = value


class Mid(object):
    def __init__(self, value=0.0):
        self.value = value
        self.position = Leaf(value)


class Outer(object):
    def __init__(self, value=0.0):
        self.value = value
        self.pose = Mid(value)


class Msg(object):
    def __init__(self, value=0.0):
        self.value = value
        self.header = Leaf(value)
        self.pose = Outer(value)

    def __repr__(self):
        return 'Msg(%r)' % (self.value,)


PATHS = ['value', 'value', 'header.value', 'pose.pose.value', 'pose.pose.position.value']
