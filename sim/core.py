"""Runner: seeded search over scenarios, determinism self-test, shrinking, replay, evidence.

A property module (sim/props/cXX.py) provides
    ID, LEVEL, RULE, ASSUMPTIONS, REAL, STUBS, RUNS = {'quick': n, 'thorough': n}
    gen(rng, tier)            -> scenario (explicit JSON; the PRNG is not consulted after this)
    run(scenario)             -> Result
    shrinks(scenario)         -> iterator of smaller candidate scenarios      (optional)
    envelope(scenario)        -> list of names of known-finding regions the scenario lies in (optional)
Exit codes: 0 held (KNOWN-FINDING lines allowed), 1 violation(s) (VIOLATION lines), 2 harness error.
"""
import os
import sys
import json
import time
import hashlib
import traceback
import subprocess
import collections
import faulthandler

from . import prng

VERIF = os.path.dirname(os.path.dirname(os.path.abspath(__file__)))
PY = sys.executable


class Result(object):
    def __init__(self):
        self.violations = []          # list of {'clause':..., 'detail':...}
        self.discarded = False        # reference undefined (NaN etc.): not an evaluation
        self.evals = 0                # oracle evaluations (comparisons made)
        self.nontrivial = set()       # keys of distinct non-trivial cases
        self.faults = collections.Counter()   # fault kinds that actually fired
        self.probes = collections.Counter()   # rare-condition probes
        self.states = set()           # distinct monitor-state digests
        self.interleavings = set()    # distinct schedule shapes
        self.sim_time = 0.0           # simulated time covered (units stated by the property)
        self.crashes = collections.Counter()  # exception classes escaping real API calls (C17 global probe)
        self.obs = []                 # observations for the determinism digest
        self.api_calls = 0

    def violate(self, clause, **detail):
        self.violations.append({'clause': clause, 'detail': detail})

    def clauses(self):
        return sorted(set(v['clause'] for v in self.violations))


def jdump(o):
    return json.dumps(o, sort_keys=True, default=_jdefault)


def _jdefault(o):
    if isinstance(o, (set, frozenset)):
        return sorted(o)
    if isinstance(o, tuple):
        return list(o)
    from fractions import Fraction
    if isinstance(o, Fraction):
        return str(o)
    return repr(o)


def digest(scenario, res):
    h = hashlib.sha256()
    h.update(jdump(scenario).encode())
    h.update(jdump(res.obs).encode())
    h.update(jdump([v['clause'] for v in res.violations]).encode())
    return h.hexdigest()[:20]


class Agg(object):
    """commutative aggregation of run results (independent of worker count / order)"""

    def __init__(self):
        self.runs = 0
        self.discarded = 0
        self.evals = 0
        self.nontrivial = set()
        self.faults = collections.Counter()
        self.probes = collections.Counter()
        self.states = set()
        self.interleavings = set()
        self.sim_time = 0.0
        self.crashes = collections.Counter()
        self.api_calls = 0
        self.failing = []            # (k, clauses)
        self.envelope_skips = collections.Counter()
        self.samples = []
        self.digests = {}
        self.slowest = (0.0, -1)     # (CPU seconds, run index) of the most expensive run: has to stay far below RUN_LIMIT_S

    def add(self, k, scenario, res, keep_sample=False):
        self.runs += 1
        self.slowest = max(self.slowest, (round(getattr(res, 'cpu_s', 0.0), 3), k))
        if res.discarded:
            self.discarded += 1
        self.evals += res.evals
        self.nontrivial |= res.nontrivial
        self.faults.update(res.faults)
        self.probes.update(res.probes)
        self.states |= res.states
        self.interleavings |= res.interleavings
        self.sim_time += res.sim_time
        self.crashes.update(res.crashes)
        self.api_calls += res.api_calls
        if res.violations:
            self.failing.append((k, res.clauses()))
        if keep_sample:
            self.samples.append((k, scenario))

    def merge(self, o):
        self.runs += o.runs
        self.discarded += o.discarded
        self.evals += o.evals
        self.nontrivial |= o.nontrivial
        self.faults.update(o.faults)
        self.probes.update(o.probes)
        self.states |= o.states
        self.interleavings |= o.interleavings
        self.sim_time += o.sim_time
        self.crashes.update(o.crashes)
        self.api_calls += o.api_calls
        self.failing += o.failing
        self.envelope_skips.update(o.envelope_skips)
        self.samples += o.samples
        self.digests.update(o.digests)
        self.slowest = max(self.slowest, o.slowest)


class _Sink(object):
    def write(self, s):
        return len(s)

    def flush(self):
        pass


class RunTimeout(BaseException):
    pass


def _on_alarm(signum, frame):
    raise RunTimeout()


RUN_LIMIT_S = float(os.environ.get('VERIF_RUN_LIMIT_S', '20'))     # default; a property module may set RUN_LIMIT_S itself
_MEM_LIMITED = [False]


def _limit_memory():
    """a runaway buffer in the code under test must end as MemoryError inside the call, not as an OOM kill"""
    if _MEM_LIMITED[0]:
        return
    _MEM_LIMITED[0] = True
    try:
        import resource
        lim = int(os.environ.get('VERIF_MEM_BYTES', str(6 * 1024 ** 3)))
        soft, hard = resource.getrlimit(resource.RLIMIT_AS)
        if hard != resource.RLIM_INFINITY:
            lim = min(lim, hard)
        resource.setrlimit(resource.RLIMIT_AS, (lim, hard))
    except Exception:
        pass


def run_quiet(prop, scenario):
    """Runs one scenario. rtamt prints from inside some operations (e.g. the discrete ln operation): keep that
    off our stdout. A run that uses more than RUN_LIMIT_S seconds of CPU time of this process (ITIMER_VIRTUAL: independent of
    the load of the machine; normal runs take milliseconds) is reported as the violation clause 'hang' (it still has to
    reproduce in the fresh-interpreter replay). A wall-clock backstop of 15 x RUN_LIMIT_S catches a run that blocks without
    using the CPU (nothing in rtamt can, but a change might).
    (Until round k the limit was wall time: under load a legitimate 18 s scenario of C18 was reported as 'hang', DESIGN 8.2.)"""
    import contextlib
    import signal
    _limit_memory()
    old = signal.signal(signal.SIGALRM, _on_alarm)
    old_v = signal.signal(signal.SIGVTALRM, _on_alarm)
    limit = float(getattr(prop, 'RUN_LIMIT_S', RUN_LIMIT_S))
    signal.setitimer(signal.ITIMER_VIRTUAL, limit)
    signal.setitimer(signal.ITIMER_REAL, 15 * limit)
    cpu0 = time.process_time()
    from . import monitors as _M
    restore_env = _M.set_env(scenario.get('_env') if isinstance(scenario, dict) else None)
    try:
        with contextlib.redirect_stdout(_Sink()):
            res = prop.run(scenario)
            env = scenario.get('_env') if isinstance(scenario, dict) else None
            if env and not res.discarded:
                if env.get('decor') is not None:
                    res.faults['spec_text_decorated'] += 1
                if env.get('knobs') is not None and _M.knob_count():
                    res.faults['tuning_constants_shrunk'] += 1
                if (env.get('dense_units') is not None or env.get('discrete_units') is not None) and _M.UNIT_REWRITES[0]:
                    res.faults['spec_rewritten_for_another_unit_notation'] += 1
                if env.get('cohost') is not None and _M.COHOSTED[0]:
                    res.faults['cohosted_twin_object'] += 1
                if env.get('failed_eval') is not None and _M.FAILED_USES[0]:
                    res.faults['object_failed_on_a_damaged_log_before'] += 1
                for k_, name_ in (('reuse_buffers', 'caller_refills_its_buffers_in_place'), ('idem_config', 'same_configuration_issued_again_mid_stream'),
                                  ('explained_before', 'object_explained_another_log_before'), ('reconf', 'object_used_under_another_sampling_period_before'),
                                  ('surplus_named', 'data_set_has_columns_named_like_assertions'),
                                  ('late_config', 'object_configured_after_parse'),
                                  ('const_bounds', 'interval_bounds_as_named_constants'),
                                  ('empty_poll', 'update_without_any_new_sample')):
                    if _M.ENV_FIRED.get(k_):
                        res.faults[name_] += 1
            res.cpu_s = time.process_time() - cpu0
            return res
    except RunTimeout:
        res = Result()
        res.violate('hang', limit_s=limit)
        res.obs.append('hang')
        return res
    except Exception as e:
        if type(e).__name__ == 'NumericOverflow':
            res = Result()
            res.discarded = True
            res.obs.append('numeric-overflow')
            return res
        if os.environ.get('VERIF_RAISE_HARNESS_EXC'):
            raise
        # An exception outside a real API call: the oracle code tripped over what the library returned (a result of the wrong
        # length or shape, None instead of a list ...). That is reported like any other violation (it has to reproduce in the
        # fresh-interpreter replay); on the unchanged tree it never happens, and if it did it would be a defect of the harness
        # that shows up as loudly as a false alarm would.
        res = Result()
        tb = traceback.extract_tb(e.__traceback__)
        res.violate('malformed-result', type=type(e).__name__, msg=str(e)[:200],
                    where=['%s:%d %s' % (os.path.basename(f.filename), f.lineno, f.name) for f in tb[-3:]])
        res.obs.append(['malformed-result', type(e).__name__])
        return res
    finally:
        signal.setitimer(signal.ITIMER_VIRTUAL, 0)
        signal.setitimer(signal.ITIMER_REAL, 0)
        signal.signal(signal.SIGALRM, old)
        signal.signal(signal.SIGVTALRM, old_v)
        restore_env()


def _draw_env(prop, rng, scenario):
    # run environment (drawn after the scenario, so scenarios are unchanged by it): decorated specification texts, shrunk
    # tuning constants ... - see sim/monitors.py
    if isinstance(scenario, dict):
        env = {}
        if rng.random() < 0.15:
            env['decor'] = rng.randrange(1 << 30)
        if rng.random() < 0.25:
            env['knobs'] = rng.randrange(1 << 30)
        if rng.random() < 0.2:
            env['omit_idle'] = True
        if rng.random() < 0.1 and 'failed_eval' not in getattr(prop, 'ENV_OPT_OUT', ()):
            env['failed_eval'] = rng.randrange(1 << 30)
        if rng.random() < 0.12 and 'dense_units' not in getattr(prop, 'ENV_OPT_OUT', ()):
            env['dense_units'] = rng.randrange(1 << 30)
        if rng.random() < 0.08 and 'cohost' not in getattr(prop, 'ENV_OPT_OUT', ()):
            env['cohost'] = rng.randrange(1 << 30)
        if rng.random() < 0.12 and 'discrete_units' not in getattr(prop, 'ENV_OPT_OUT', ()):
            env['discrete_units'] = rng.randrange(1 << 30)
        # (round k; drawn last, so that everything drawn before is unchanged)
        out = getattr(prop, 'ENV_OPT_OUT', ())
        if rng.random() < 0.12 and 'reuse_buffers' not in out:
            env['reuse_buffers'] = True
        if rng.random() < 0.1 and 'idem_config' not in out:
            env['idem_config'] = rng.randrange(1 << 30)
        if rng.random() < 0.08 and 'explained_before' not in out:
            env['explained_before'] = rng.randrange(1 << 30)
        if rng.random() < 0.08 and 'reconf' not in out:
            env['reconf'] = rng.randrange(1 << 30)
        if rng.random() < 0.08 and 'surplus_named' not in out:
            env['surplus_named'] = rng.randrange(1 << 30)
        if rng.random() < 0.15 and 'late_config' not in out:
            env['late_config'] = True
        if rng.random() < 0.08 and 'const_bounds' not in out:
            env['const_bounds'] = rng.randrange(1 << 30)
        if rng.random() < 0.12 and 'empty_poll' not in out:
            env['empty_poll'] = rng.randrange(1 << 30)
        if env:
            scenario['_env'] = env


def one_run(prop, seed, k, tier):
    rng = prng.rng_for(seed, prop.ID, k)
    scenario = prop.gen(rng, tier)
    _draw_env(prop, rng, scenario)
    res = run_quiet(prop, scenario)
    return scenario, res


def _worker(args):
    prop_name, seed, ks, tier, deadline, want_digests = args
    faulthandler.dump_traceback_later(max(60, deadline - time.time() + 120), exit=True)
    prop = load_prop(prop_name)
    agg = Agg()
    stop_flag = os.environ.get('VERIF_STOP_FLAG')      # (sensitivity tools only: stop the batch soon after the first failing run)
    for i_, k in enumerate(ks):
        if time.time() > deadline:
            break
        if stop_flag and i_ % 8 == 0 and os.path.exists(stop_flag):
            break
        scenario, res = one_run(prop, seed, k, tier)
        if stop_flag and res.violations and not res.discarded:
            try:
                open(stop_flag, 'w').close()
            except OSError:
                pass
        agg.add(k, scenario, res, keep_sample=(k < 3))
        if k in want_digests:
            agg.digests[k] = digest(scenario, res)
    faulthandler.cancel_dump_traceback_later()
    return agg


def load_prop(name):
    import importlib
    return importlib.import_module('sim.props.' + name.lower())


# ---------------------------------------------------------------------------------------------------
# known findings

def known_findings(prop_id):
    path = os.path.join(VERIF, 'known_findings.jsonl')
    out = []
    if os.path.exists(path):
        for line in open(path):
            line = line.strip()
            if not line or line.startswith('#'):
                continue
            e = json.loads(line)
            if e.get('property') == prop_id:
                out.append(e)
    return out


def replay_witnesses(prop):
    """For every open known finding of this property: replay its witness; print KNOWN-FINDING iff it still
    fails with the recorded clause. A 'fixed' entry suppresses nothing and prints nothing."""
    lines = []
    still = []
    for e in known_findings(prop.ID):
        if e.get('status') != 'open':
            continue
        wpath = os.path.join(VERIF, e['witness'])
        rec = json.load(open(wpath))
        res = run_quiet(prop, rec['scenario'])
        if e['clause'] in res.clauses():
            lines.append('KNOWN-FINDING: property=%s %s (witness %s, envelope rule %s)' %
                         (prop.ID, e['what'], e['witness'], e.get('envelope', '-')))
            still.append(e['id'])
        else:
            lines.append('NOTE: known finding %s no longer reproduces on this tree (witness %s passes)' %
                         (e['id'], e['witness']))
    return lines, still


# ---------------------------------------------------------------------------------------------------
# shrinking and replay

def _exc_type(res, clause):
    for v in res.violations:
        if v['clause'] == clause:
            return (v.get('detail') or {}).get('type')
    return None


def same_failure(prop, scenario, clause, exc_type=None):
    """the same violation class: same clause and, for clauses about an escaping exception, the same exception type
    (so that the minimiser cannot drift from one kind of crash into another)"""
    try:
        res = run_quiet(prop, scenario)
    except Exception:
        return False
    if res.discarded:
        return False
    if clause not in res.clauses():
        return False
    if exc_type is not None and _exc_type(res, clause) != exc_type:
        return False
    env = getattr(prop, 'envelope', None)
    if env is not None and env(scenario):
        return False     # never shrink an unlisted violation into a known-finding region
    return True


def _with_env_candidates(cur, sh):
    """first try to drop the run environment (decorated texts, shrunk tuning constants), then the property's own candidates"""
    env = cur.get('_env') if isinstance(cur, dict) else None
    if env:
        for k in sorted(env):
            c = dict(cur)
            c['_env'] = dict((kk, v) for kk, v in env.items() if kk != k)
            if not c['_env']:
                del c['_env']
            yield c
    for cand in sh(cur):
        yield cand


def shrink(prop, scenario, clause, max_exec=600, max_s=45.0):
    sh = getattr(prop, 'shrinks', None)
    if sh is None:
        return scenario, 0
    try:
        exc_type = _exc_type(run_quiet(prop, scenario), clause)
    except Exception:
        exc_type = None
    t0 = time.time()
    n_exec = 0
    cur = scenario
    progress = True
    while progress and n_exec < max_exec and time.time() - t0 < max_s:
        progress = False
        for cand in _with_env_candidates(cur, sh):
            n_exec += 1
            if n_exec >= max_exec or time.time() - t0 > max_s:
                break
            if same_failure(prop, cand, clause, exc_type):
                cur = cand
                progress = True
                break
    return cur, n_exec


def write_replay(prop, seed, k, clause, scenario, detail, shrunk_from=None):
    d = os.environ.get('VERIF_REPLAY_DIR') or os.path.join(VERIF, 'replays')
    os.makedirs(d, exist_ok=True)
    tag = hashlib.sha256(clause.encode()).hexdigest()[:6]
    path = os.path.join(d, '%s-%d-%d-%s.json' % (prop.ID, seed, k, tag))
    rec = {'property': prop.ID, 'verif_seed': seed, 'run': k, 'clause': clause, 'scenario': scenario,
           'detail': detail, 'shrunk_from_size': shrunk_from}
    with open(path, 'w') as f:
        f.write(json.dumps(rec, indent=1, sort_keys=True, default=_jdefault))
    return path


def replay_file(prop, path, verbose=True):
    rec = json.load(open(path))
    # a replay may carry a HISTORY: scenarios the same process executed before (state that outlives the monitor objects - a
    # process-wide cache in the code under test - made the last scenario fail); they are re-executed first, in order
    for earlier in rec.get('history') or []:
        try:
            run_quiet(prop, earlier)
        except Exception:
            pass
    res = run_quiet(prop, rec['scenario'])
    want = rec.get('clause')
    got = res.clauses()
    if verbose:
        print('replay %s: recorded clause %s; now fails clauses %s' % (path, want, got))
        for v in res.violations[:5]:
            print('  ' + jdump(v)[:1500])
    if want in got or (want is None and got):
        print('VIOLATION property=%s replay=%s' % (prop.ID, path))
        return 1
    return 0


def fresh_replay_fails(prop, path):
    """re-execute the minimised scenario in a fresh interpreter; must fail the same way"""
    env = dict(os.environ)
    env['PYTHONHASHSEED'] = '0'
    p = subprocess.run([os.path.join(VERIF, 'check'), prop.ID, '--replay', path, '--quiet'],
                       env=env, capture_output=True, text=True, timeout=300, cwd=VERIF)
    return p.returncode == 1 and ('VIOLATION property=%s' % prop.ID) in p.stdout


def _history_replay(prop, seed, k, clause, scenario, detail, hist_ks, tier, max_fresh=24):
    """the scenario of run k fails in the worker but not alone in a fresh interpreter: try it after the scenarios the worker had
    executed before it (runs hist_ks, same order), then shrink that history by halving. Returns the replay path or None."""
    hist = []
    for kk in hist_ks:
        try:
            hist.append(one_run_scenario(prop, seed, kk, tier))
        except Exception:
            pass

    def attempt(h):
        d = os.environ.get('VERIF_REPLAY_DIR') or os.path.join(VERIF, 'replays')
        os.makedirs(d, exist_ok=True)
        tag = hashlib.sha256(clause.encode()).hexdigest()[:6]
        path = os.path.join(d, '%s-%d-%d-%s-history.json' % (prop.ID, seed, k, tag))
        rec = {'property': prop.ID, 'verif_seed': seed, 'run': k, 'clause': clause, 'scenario': scenario, 'history': h,
               'detail': detail, 'note': 'the scenario fails only after the history was executed in the same process'}
        with open(path, 'w') as f:
            f.write(json.dumps(rec, indent=1, sort_keys=True, default=_jdefault))
        return path if fresh_replay_fails(prop, path) else None
    n_fresh = 1
    if not attempt(hist):
        return None
    cur = hist
    chunk = max(1, len(cur) // 2)
    while chunk >= 1 and n_fresh < max_fresh and len(cur) > 1:
        i = 0
        progressed = False
        while i < len(cur) and n_fresh < max_fresh:
            cand = cur[:i] + cur[i + chunk:]
            n_fresh += 1
            if attempt(cand):
                cur = cand
                progressed = True
            else:
                i += chunk
        if chunk == 1 and not progressed:
            break
        chunk = max(1, chunk // 2) if chunk > 1 else (1 if progressed else 0)
    return attempt(cur)


def one_run_scenario(prop, seed, k, tier):
    """the scenario (with its run environment) of run k, without executing it"""
    rng = prng.rng_for(seed, prop.ID, k)
    scenario = prop.gen(rng, tier)
    _draw_env(prop, rng, scenario)
    return scenario


# ---------------------------------------------------------------------------------------------------
# determinism self-test

def selftest(prop, seed, tier, ks_inproc, pool_digests):
    """(i) twice in the same process, (ii) pool worker, (iii) fresh interpreters with other PYTHONHASHSEED."""
    local = {}
    for k in ks_inproc:
        s1, r1 = one_run(prop, seed, k, tier)
        s2, r2 = one_run(prop, seed, k, tier)
        d1, d2 = digest(s1, r1), digest(s2, r2)
        if d1 != d2:
            return False, 'run %d differs between two executions in one process' % k, {}
        local[k] = d1
    for k in ks_inproc:
        if k in pool_digests and pool_digests[k] != local[k]:
            return False, 'run %d differs between the main process and a pool worker' % k, {}
    fresh = {}
    ks = list(ks_inproc)[:getattr(prop, 'SELFTEST_FRESH', 6)]
    for hs in ('1', '31337'):
        env = dict(os.environ)
        env['PYTHONHASHSEED'] = hs
        env['VERIF_SEED'] = str(seed)
        bad = None
        for attempt in (1, 2):
            # A dependence on the hash seed is deterministic for a fixed PYTHONHASHSEED, so it shows in both attempts; a mismatch
            # that does not repeat comes from the environment (seen once, thorough tier under heavy load while /repo was being
            # edited, not reproducible afterwards: DESIGN 8.2) and is recorded, not reported.
            p = subprocess.run([os.path.join(VERIF, 'check'), prop.ID, '--digests', ','.join(map(str, ks)),
                                '--tier', tier], env=env, capture_output=True, text=True, timeout=600, cwd=VERIF)
            if p.returncode != 0:
                bad = 'fresh interpreter failed: ' + p.stderr[-500:]
                continue
            got = json.loads(p.stdout.strip().splitlines()[-1])
            diff = [k for k in ks if got[str(k)] != local[k]]
            if not diff:
                if bad is not None:
                    fresh['unrepeatable_mismatch_under_%s' % hs] = bad
                bad = None
                break
            bad = 'run %d differs under PYTHONHASHSEED=%s' % (diff[0], hs)
        if bad is not None:
            return False, bad + ' (twice)', {}
        fresh[hs] = len(ks)
    return True, 'ok', {'in_process_twice': len(local), 'pool_vs_main': len([k for k in ks_inproc if k in pool_digests]),
                        'fresh_interpreter_hashseeds': fresh}


# ---------------------------------------------------------------------------------------------------
# main entry

def run_check(prop_name, tier, replay=None, digests=None, quiet=False, runs_override=None, workers=None):
    t0 = time.time()
    prop = load_prop(prop_name)
    seed = prng.verif_seed()

    if replay:
        return replay_file(prop, replay, verbose=not quiet)

    if digests is not None:
        out = {}
        for k in digests:
            s, r = one_run(prop, seed, k, tier)
            out[str(k)] = digest(s, r)
        print(json.dumps(out))
        return 0

    print('VERIF_SEED=%d property=%s tier=%s repo=%s' % (seed, prop.ID, tier, os.environ.get('VERIF_REPO', '/repo')))
    n_runs = int(os.environ.get('VERIF_RUNS', '0')) or runs_override or prop.RUNS[tier]
    if os.environ.get('VERIF_RUNS_SCALE'):      # used by the mutation tool only
        n_runs = max(8, int(n_runs * float(os.environ['VERIF_RUNS_SCALE'])))
    budget = float(os.environ.get('VERIF_BUDGET_S', '0')) or (150.0 if tier == 'quick' else 3600.0)
    deadline = t0 + budget
    W = workers or int(os.environ.get('VERIF_WORKERS', '0')) or min(16, os.cpu_count() or 1)

    # known-finding witnesses first
    kf_lines, kf_open = replay_witnesses(prop)
    for l in kf_lines:
        print(l)

    st_ks = list(range(0, min(n_runs, getattr(prop, 'SELFTEST_RUNS', 12))))
    from concurrent.futures import ProcessPoolExecutor
    import multiprocessing as mp
    chunks = [list(range(w, n_runs, W)) for w in range(W)]
    agg = Agg()
    try:
        with ProcessPoolExecutor(max_workers=W, mp_context=mp.get_context('fork')) as ex:
            futs = [ex.submit(_worker, (prop_name, seed, ks, tier, deadline, set(st_ks))) for ks in chunks if ks]
            for f in futs:
                agg.merge(f.result(timeout=budget + 300))
    except Exception:
        traceback.print_exc()
        print('HARNESS-ERROR property=%s worker pool failed' % prop.ID)
        return 2

    # violations: shrink, write replay, confirm in a fresh interpreter
    agg.failing.sort()
    reported = []
    seen_clauses = set()
    unconfirmed = 0
    for k, clauses in agg.failing:
        for clause in clauses:
            if clause in seen_clauses:
                continue
            seen_clauses.add(clause)
            scenario, res = one_run(prop, seed, k, tier)
            small, n_exec = shrink(prop, scenario, clause)
            res2 = run_quiet(prop, small)
            detail = [v for v in res2.violations if v['clause'] == clause][:1]
            path = write_replay(prop, seed, k, clause, small, detail, shrunk_from=len(jdump(scenario)))
            if fresh_replay_fails(prop, path):
                print('VIOLATION property=%s replay=%s' % (prop.ID, path))
                print('  clause=%s run=%d shrink_execs=%d detail=%s' % (clause, k, n_exec, jdump(detail)[:800]))
                reported.append(path)
            else:
                # the minimiser ran in this (long-lived) process: if the code under test keeps state ACROSS monitor objects
                # (a shared cache, a module-level table), candidates may have failed only because of earlier runs. Fall back
                # to the scenario as generated and ask a fresh interpreter again.
                detail0 = [v for v in res.violations if v['clause'] == clause][:1]
                path0 = write_replay(prop, seed, k, clause, scenario, detail0, shrunk_from=None)
                if detail0 and fresh_replay_fails(prop, path0):
                    print('VIOLATION property=%s replay=%s' % (prop.ID, path0))
                    print('  clause=%s run=%d (not minimised: the failure of smaller scenarios depended on state left by earlier runs in '
                          'the same process) detail=%s' % (clause, k, jdump(detail0)[:700]))
                    reported.append(path0)
                else:
                    # last resort: the failure needs what the worker process had executed before (state kept across monitor
                    # objects AND across scenarios). Replay the worker's history in a fresh interpreter and minimise it.
                    hist_ks = [kk for kk in range(k % W, k, W)]
                    path_h = _history_replay(prop, seed, k, clause, scenario, detail0, hist_ks, tier)
                    if path_h:
                        print('VIOLATION property=%s replay=%s' % (prop.ID, path_h))
                        print('  clause=%s run=%d (fails only after earlier scenarios ran in the same process: state outlives the '
                              'monitor objects; the replay file carries the minimised history) detail=%s' % (clause, k, jdump(detail0)[:600]))
                        reported.append(path_h)
                    else:
                        unconfirmed += 1
                        print('HARNESS-ERROR property=%s replay %s did not reproduce in a fresh interpreter' % (prop.ID, path))
        if len(reported) >= 5:
            break

    # determinism self-test (after the violations, so that a confirmed violation is reported even if the tree under
    # test is so broken that the self-test itself runs into hangs)
    try:
        ok, why, st_info = selftest(prop, seed, tier, st_ks, agg.digests)
    except Exception as e:      # e.g. a fresh interpreter that exceeds its time limit
        ok, why, st_info = False, 'self-test could not be completed: %r' % (e,), {}
    if not ok:
        print('HARNESS-ERROR property=%s determinism self-test failed: %s' % (prop.ID, why))
        if not reported:
            return 2

    wall = time.time() - t0
    completed = agg.runs
    ev = {
        'property_id': prop.ID,
        'tier': tier,
        'seed': seed,
        'level': prop.LEVEL,
        'wall_s': round(wall, 3),
        'violations': len(agg.failing),
        'assumptions': list(prop.ASSUMPTIONS),
        'coverage': {
            'evaluations': agg.evals,
            'distinct_nontrivial': len(agg.nontrivial),
            'rule': prop.RULE,
            'samples': [s for _, s in sorted(agg.samples, key=lambda x: x[0])[:2]],
            'exhaustive': False,
            'runs': completed,
            'runs_planned': n_runs,
            'runs_discarded_reference_undefined': agg.discarded,
            'runs_per_hour': int(completed / max(wall, 1e-9) * 3600),
            'workers': W,
            'slowest_run': {'cpu_s': agg.slowest[0], 'run': agg.slowest[1], 'limit_s': float(getattr(prop, 'RUN_LIMIT_S', RUN_LIMIT_S))},
            'real_api_calls': agg.api_calls,
            'simulated_time_covered': {'amount': round(agg.sim_time, 3), 'unit': getattr(prop, 'SIM_TIME_UNIT', 'samples')},
            'fault_kinds_fired': dict(sorted(agg.faults.items())),
            'distinct_monitor_states': len(agg.states),
            'distinct_interleavings': len(agg.interleavings),
            'state_measure': getattr(prop, 'STATE_MEASURE', 'distinct digests of online operator memory after a step'),
            'interleaving_measure': getattr(prop, 'INTERLEAVING_MEASURE', 'distinct schedule shapes'),
            'probes': dict(sorted(agg.probes.items())),
            'probes_stuck_at_zero': [p for p in getattr(prop, 'PROBES', []) if agg.probes.get(p, 0) == 0],
            'exceptions_escaping_api_calls': dict(sorted(agg.crashes.items())),
            'real_components': list(prop.REAL),
            'stub_components': list(prop.STUBS),
            'envelope_rules_in_force': list(getattr(prop, 'ENVELOPE_RULES', [])),
            'known_findings_replayed': kf_open,
            'determinism_selftest': st_info,
            'violations_reported': reported,
        },
    }
    evdir = os.environ.get('VERIF_EVIDENCE_DIR') or os.path.join(VERIF, 'evidence')   # registered commands never set it
    os.makedirs(evdir, exist_ok=True)
    with open(os.path.join(evdir, prop.ID + '.json'), 'w') as f:
        f.write(json.dumps(ev, indent=1, sort_keys=True, default=_jdefault))
    print('property=%s runs=%d/%d discarded=%d evals=%d nontrivial=%d states=%d interleavings=%d wall=%.1fs slowest_run=%.2fs(cpu, run %d) faults=%s' %
          (prop.ID, completed, n_runs, agg.discarded, agg.evals, len(agg.nontrivial), len(agg.states),
           len(agg.interleavings), wall, agg.slowest[0], agg.slowest[1], dict(agg.faults)))
    if completed < n_runs:
        print('NOTE: %s after %d of %d runs' % ('stopped after the first failing run (VERIF_STOP_FLAG)' if os.environ.get('VERIF_STOP_FLAG')
                                                 else 'wall-clock cap reached', completed, n_runs))
    if reported:
        return 1
    if unconfirmed or agg.failing:
        # failures that could not be confirmed by replay are harness trouble, never silence
        return 2
    if len(agg.nontrivial) < 2 or agg.evals < 1:
        print('HARNESS-ERROR property=%s nothing non-trivial was evaluated' % prop.ID)
        return 2
    return 0
