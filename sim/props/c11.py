"""C11 - evaluation is pure: caller data untouched, repeatable, isolated, deterministic.

Run: 2-4 real specification objects of mixed kinds are co-hosted in one process; they share variable names and -
as an extra fault - the very same caller data objects. A seeded scheduler interleaves their operations
(evaluate, re-evaluate, update).
Oracle: (i) a deep snapshot of every argument taken before a call equals it after the call and the identity of the
nested lists is unchanged; (ii) every object's outputs equal those of its solo run on private copies; (iii) a second
evaluate() of the same offline object on the same data returns the same result; (iv) the observations of the run
are identical in fresh interpreters under PYTHONHASHSEED in {1, 2, 31337} (on a sampled subset of runs).
"""
import os
import sys
import copy
import json
import subprocess

from .. import specgen as sg
from .. import monitors as M
from .. import world
from ..core import Result, jdump, VERIF
from . import common

ID = 'C11'
LEVEL = 'exploration'
RUNS = {'quick': 6000, 'thorough': 60000}
SIM_TIME_UNIT = 'API calls'
RULE = ('seeded generation of (2-4 co-hosted specification objects of mixed kinds over shared variable names and shared caller '
        'data objects, an interleaving of their operations); non-trivial = at least two objects produced a non-constant finite '
        'output and the interleaving alternates between objects; distinct = distinct (kinds, interleaving pattern)')
ASSUMPTIONS = ['solo runs use private deep copies of the data', 'NaN outputs compare equal to NaN',
               'the hash-seed clause is checked on every 40th run (fresh interpreter per seed) and by the determinism self-test']
REAL = common.REAL_ALL
STUBS = common.STUBS_ALL
PROBES = ['solo_in_fresh_process', 'batch_boundary_sample_resent', 'shared_data_objects', 're_evaluate', 'bounded_future_on_short_trace', 'hashseed_leg', 'online_and_offline_cohosted',
          'dense_and_discrete_cohosted', 'read_only_columns_rejected']
INTERLEAVING_MEASURE = 'distinct sequences of (object index, operation) in the schedule'


def gen(rng, tier):
    nv = rng.randint(1, 3)
    vars_ = common.VARS[:nv]
    k = rng.randint(2, 4)
    n = rng.randint(1, 8)
    data = world.gen_trace(rng, vars_, n)
    signals = dict((v, world.gen_dense_signal(rng, rng.randint(2, 6), start_q=0, max_gap_q=4)[0]) for v in vars_)
    mons = []
    # co-hosted discrete-time objects with the same sampling period (1 ms) but different default units: the same unit-less
    # bound means 2 samples for one and 2000 for the other (unary bounded operators only, so that long windows stay cheap)
    clash = rng.random() < 0.04
    for j in range(k):
        kind = rng.choice(['dt_off', 'dt_off', 'dt_on', 'ct_off', 'ct_on', 'dt', 'ct'])
        mode = 'off' if kind in ('dt_off', 'ct_off') else ('on' if kind in ('dt_on', 'ct_on') else rng.choice(['off', 'on']))
        dense = kind.startswith('ct')
        if mode == 'off':
            ops = common.DENSE_OFFLINE_OPS if dense else set(sg.ALL_OPS)
        else:
            ops = common.DENSE_PAST_OPS if dense else common.PAST_OPS
        cfg_ = None
        if clash and not dense:
            ops = set(ops) - {'since_b', 'until_b', 'unless_b', 'exp'}
            cfg_ = {'unit': rng.choice(['ms', 's']), 'sampling': [1, 'ms', 0.1]}
        for _ in range(50):
            ast = sg.gen_formula(rng, sg.GenCfg(vars=vars_, ops=ops, max_depth=rng.randint(2, 3 if cfg_ else 4), max_bound=(2 if cfg_ else rng.choice([2, 4, 8])),
                                                p_reuse=rng.choice([0.0, 0.2])))
            if sg.vars_of(ast):
                break
        mo = {'kind': kind, 'mode': mode, 'ast': ast}
        consts_pending = rng.random() < 0.3
        if mode == 'on' and rng.random() < 0.3:
            mo['pastify'] = True       # (a past-time specification: pastify() changes nothing, but the pastifier runs)
        if cfg_:
            mo['cfg'] = cfg_
        if rng.random() < 0.3 and sg.size(ast) >= 4:
            # the same requirement written with named sub-specifications
            defs, top = sg.modularize(rng, ast, max_subs=2, prefer_stateful=rng.random() < 0.5)
            if rng.random() < 0.3:
                defs, top = sg.add_alias(rng, defs, top, 'q1')       # a bare number or variable with a name of its own (also used as -(q1))
            tt = (lambda a: sg.to_text(a, None, common.dense_bounds)) if dense else (lambda a: sg.to_text(a))
            mo['subs'] = ['%s = %s;' % (nm, tt(a)) for nm, a in defs]
            mo['top'] = 'out = ' + tt(top) + ';'
        if consts_pending and not mo.get('subs'):
            # some literals are declared constants k1, k2: co-hosted objects then use the SAME constant names with other values
            lits = sorted(set(x[1] for x in sg.walk(ast) if x[0] == 'const' and x[1] >= 0))
            rng.shuffle(lits)
            mo['consts'] = [['k%d' % (i + 1), v, 'number'] for i, v in enumerate(lits[:2])]
        mons.append(mo)
    # schedule: offline objects evaluate 1-3 times, online objects step through their stream
    tokens = []
    for j, mo in enumerate(mons):
        dense = mo['kind'].startswith('ct')
        if mo['mode'] == 'off':
            tokens += [j] * rng.randint(1, 3)
        elif dense:
            tokens += [j] * rng.randint(1, 3)          # number of batches
        else:
            tokens += [j] * n
    rng.shuffle(tokens)
    share = rng.random() < 0.7
    return {'vars': vars_, 'n': n, 'data': data, 'signals': signals, 'mons': mons, 'schedule': tokens, 'share': share,
            'dup_boundary': rng.random() < 0.4,
            # the recorded columns are tuples and the time column a range (read-only sequences) instead of lists
            'tuple_columns': rng.random() < 0.2,
            'split_entries': rng.random() < 0.15,
            # a recorded dense signal with a repeated time stamp ([t, old], [t, new]); the library may reject it
            'dup_stamp': [v for v in vars_ if rng.random() < 0.6] if rng.random() < 0.12 else [],
            # recorded signals that end with an explicit "holds forever" sample [inf, last value] (dense offline objects)
            'inf_tail': [v for v in vars_ if rng.random() < 0.6] if rng.random() < 0.2 else [],
            'hashseeds': [1, 31337] if rng.random() < 0.05 else [],
            # every object is also run ALONE in a fresh interpreter (state that outlives an object - a process-wide cache - pollutes
            # the in-process solo runs as well)
            'solo_fresh': clash or rng.random() < 0.01,
            # the application configures all its objects first (construct, declare) and parses them afterwards
            'phased_setup': rng.random() < 0.4}


def _desc(sc, mo):
    dense = mo['kind'].startswith('ct')
    a_ = common.consts_to_refs(mo['ast'], mo.get('consts') or [])
    text = common.dense_text(a_) if dense else 'out = ' + sg.to_text(a_) + ';'
    d = {'cls': mo['kind'], 'vars': common.var_decls(sc['vars']), 'spec': text}
    if mo.get('consts'):
        d['consts'] = [[k, 'float', v] for k, v, _ in mo['consts']]
    if mo.get('subs'):
        d = {'cls': mo['kind'], 'vars': common.var_decls(sc['vars']), 'spec': mo['top'], 'subspecs': list(mo['subs'])}
    if mo.get('cfg'):
        d.update(mo['cfg'])
    if mo.get('pastify'):
        d['pastify'] = True
    return d


def _ids(o, depth=0):
    if isinstance(o, dict):
        return [id(o)] + [_ids(o[k], depth + 1) for k in o]
    if isinstance(o, (list, tuple)) and depth < 4:
        return [id(o)] + [_ids(x, depth + 1) for x in o if isinstance(x, (list, tuple, dict))]
    return [id(o)]


def eqv(a, b):
    if a is None or b is None:
        return a is b
    if isinstance(a, (list, tuple)) and isinstance(b, (list, tuple)):
        return len(a) == len(b) and all(eqv(x, y) for x, y in zip(a, b))
    if isinstance(a, (list, tuple)) or isinstance(b, (list, tuple)):
        return False
    return M.num_eq(a, b) or (a != a and b != b)


class Host(object):
    """drives one monitor through its operations on the given (possibly shared) data objects"""

    def __init__(self, sc, j, data, signals, r, check_purity, spec=None):
        self.sc, self.j, self.mo = sc, j, sc['mons'][j]
        self.data, self.signals = data, signals
        self.dense = self.mo['kind'].startswith('ct')
        self.spec = spec if spec is not None else M.build(_desc(sc, self.mo))
        if self.dense and self.mo['mode'] == 'off' and sc.get('dup_stamp'):
            sig2 = {}
            for v in signals:
                s_ = list(signals[v])
                if v in sc['dup_stamp'] and len(s_) >= 2:
                    i = len(s_) // 2
                    s_ = s_[:i + 1] + [[s_[i][0], s_[i][1] + 1.0]] + s_[i + 1:]
                sig2[v] = s_
            self.signals = signals = sig2
            self.questionable = True
            r.faults['signal_with_repeated_time_stamp'] += 1
        if self.dense and self.mo['mode'] == 'off' and sc.get('inf_tail'):
            self.signals = dict((v, (signals[v] + [[float('inf'), signals[v][-1][1]]]) if v in sc['inf_tail'] else signals[v])
                                for v in signals)
            r.faults['signal_ends_with_inf_sample'] += 1
        self.step = 0
        self.outs = []
        self.r = r
        self.check_purity = check_purity
        total = sum(1 for t in sc['schedule'] if t == j)
        self.total = total

    def call(self, fn, *args):
        before = copy.deepcopy(args)
        ids = _ids(args)
        try:
            out = fn(*args)
        except M.ApiCrash:
            if not ((self.sc.get('tuple_columns') and not self.dense) or getattr(self, 'questionable', False)):
                raise
            # only lists are documented as columns: a read-only sequence may be rejected - but never modified or replaced
            out = None
            self.dead = True
            self.r.probes['read_only_columns_rejected'] += 1
        self.r.api_calls += 1
        if self.check_purity:
            self.r.evals += 1
            if jdump(before) != jdump(args):
                self.r.violate('caller-data-untouched', object=self.j, kind=self.mo['kind'], spec=_desc(self.sc, self.mo)['spec'],
                               before=before, after=copy.deepcopy(args))
            elif ids != _ids(args):
                self.r.violate('caller-data-identity', object=self.j, kind=self.mo['kind'], spec=_desc(self.sc, self.mo)['spec'])
        return copy.deepcopy(out)

    def op(self):
        vars_ = self.sc['vars']
        if getattr(self, 'dead', False):
            return
        if self.mo['mode'] == 'off':
            if self.dense:
                M._do_failed_use(self.spec, signals=self.signals)      # run environment 'failed_eval' (this host calls evaluate itself)
                args = [[v, self.signals[v]] for v in vars_]
                out = self.call(lambda *a: M.api('evaluate', self.spec.evaluate, *a), *args)
            else:
                M._do_failed_use(self.spec, times=list(self.data['time']))
                ds = self.data            # the caller's dict itself, with a time column
                out = self.call(lambda d: M.api('evaluate', self.spec.evaluate, d), ds)
            self.outs.append(out)
        elif self.dense:
            # batch number self.step of self.total
            args = []
            for v in vars_:
                s = self.signals[v]
                lo = len(s) * self.step // self.total
                hi = len(s) * (self.step + 1) // self.total
                if self.sc.get('dup_boundary') and self.step > 0 and lo > 0 and hi > lo:
                    lo -= 1       # transport fault: the batch re-sends the last sample of the previous batch
                b_ = s[lo:hi]
                if self.sc.get('split_entries') and len(b_) >= 2:
                    # a sensor whose messages arrive as two packets is mentioned twice in the same call
                    args.append([v, b_[:len(b_) // 2]])
                    args.append([v, b_[len(b_) // 2:]])
                    self.r.faults['variable_mentioned_twice_in_one_update'] += 1
                else:
                    args.append([v, b_])
            out = self.call(lambda *a: M.api('update', self.spec.update, *a), *args)
            self.outs.append(out)
        else:
            i = self.step
            inputs = [(v, self.data[v][i]) for v in vars_]
            out = self.call(lambda t, x: M.api('update', self.spec.update, t, x), self.data['time'][i], inputs)
            self.outs.append(out)
        self.step += 1


def execute(sc, shared, r, check_purity):
    """returns list of outputs per monitor"""
    base = dict(sc['data'])
    base['time'] = list(range(sc['n']))
    if sc.get('tuple_columns'):
        base = dict((k, tuple(base[k])) for k in base)
        base['time'] = range(sc['n'])
        r.faults['read_only_columns'] += 1
    if shared:
        datas = [base] * len(sc['mons'])
        sigs = [sc['signals']] * len(sc['mons'])
    else:
        datas = [copy.deepcopy(base) for _ in sc['mons']]
        sigs = [copy.deepcopy(sc['signals']) for _ in sc['mons']]
    specs = [None] * len(sc['mons'])
    if sc.get('phased_setup') and len(sc['mons']) > 1:
        specs = M.build_phased([_desc(sc, mo) for mo in sc['mons']])
        r.faults['objects_configured_first_parsed_afterwards'] += 1
    hosts = [Host(sc, j, datas[j], sigs[j], r, check_purity, specs[j]) for j in range(len(sc['mons']))]
    for j in sc['schedule']:
        hosts[j].op()
    return [h.outs for h in hosts]


def in_process(sc, r):
    sc = copy.deepcopy(sc)          # the scenario itself plays the caller's data when shared
    outs = execute(sc, sc.get('share', True), r, True)
    # (ii) solo runs
    for j in range(len(sc['mons'])):
        solo = copy.deepcopy(sc)
        solo['schedule'] = [t for t in sc['schedule'] if t == j]
        rr = Result()
        so = execute(solo, False, rr, False)[j]
        r.api_calls += rr.api_calls
        r.evals += 1
        if not eqv(so, outs[j]):
            r.violate('isolated-from-cohosted-objects', object=j, kind=sc['mons'][j]['kind'],
                      spec=_desc(sc, sc['mons'][j])['spec'], cohosted=outs[j], solo=so)
    # (iii) repeatability of offline objects
    for j, mo in enumerate(sc['mons']):
        if mo['mode'] == 'off' and len(outs[j]) > 1:
            r.evals += 1
            r.probes['re_evaluate'] += 1
            r.faults['re_evaluate'] += len(outs[j]) - 1
            if any(not eqv(o, outs[j][0]) for o in outs[j][1:]):
                r.violate('re-evaluate-same-result', object=j, kind=mo['kind'], spec=_desc(sc, mo)['spec'], results=outs[j])
    return outs


def run(sc):
    r = Result()
    for mo in sc['mons']:
        dn = mo['kind'].startswith('ct')
        if not common.ref_defined([mo['ast']], dn, sc['signals'] if dn else sc['data'], sc['n']):
            r.discarded = True
            return r
    try:
        outs = in_process(sc, r)
    except M.ApiCrash as e:
        r.crashes[e.exc_type] += 1
        r.violate('api-raised', **e.describe())
        r.obs.append(['crash', e.exc_type])
        return r
    r.obs.append(outs)
    r.sim_time += len(sc['schedule'])
    r.faults['interleave'] += sum(1 for a, b in zip(sc['schedule'], sc['schedule'][1:]) if a != b)
    r.interleavings.add(','.join('%d%s' % (j, sc['mons'][j]['kind']) for j in sc['schedule']))
    if sc.get('dup_boundary') and any(m['kind'].startswith('ct') and m['mode'] == 'on' for m in sc['mons']):
        r.probes['batch_boundary_sample_resent'] += 1
        r.faults['boundary_dup'] += 1
    if sc.get('share'):
        r.probes['shared_data_objects'] += 1
        r.faults['shared_caller_data'] += 1
    kinds = set(m['kind'] for m in sc['mons'])
    modes = set(m['mode'] for m in sc['mons'])
    if len(modes) > 1:
        r.probes['online_and_offline_cohosted'] += 1
    if any(k.startswith('ct') for k in kinds) and any(k.startswith('dt') for k in kinds):
        r.probes['dense_and_discrete_cohosted'] += 1
    for mo in sc['mons']:
        if mo['mode'] == 'off' and not mo['kind'].startswith('ct'):
            if any(x[0] in ('eventually_b', 'always_b') and x[2] >= sc['n'] for x in sg.walk(mo['ast'])):
                r.probes['bounded_future_on_short_trace'] += 1
    # (iv) hash seed
    if sc.get('hashseeds') and not r.violations:
        me = jdump(outs)
        r.probes['hashseed_leg'] += 1
        for hs in sc['hashseeds']:
            r.faults['hashseed'] += 1
            env = dict(os.environ)
            env['PYTHONHASHSEED'] = str(hs)
            code = ('import sys, json; sys.path.insert(0, %r); from sim.props import c11; from sim.core import Result, jdump; '
                    'from sim import monitors as M; sc = json.load(sys.stdin); M.set_env(sc.get("_env")); '
                    'print(jdump(c11.in_process(sc, Result())))' % VERIF)
            p = subprocess.run([sys.executable, '-B', '-c', code], input=json.dumps(sc), env=env, capture_output=True, text=True,
                               timeout=120, cwd=VERIF)
            r.evals += 1
            got = p.stdout.strip().splitlines()[-1] if p.stdout.strip() else ''
            if p.returncode != 0 or got != me:
                r.violate('hashseed-independence', hashseed=hs, here=me[:500], there=got[:500], stderr=p.stderr[-300:])
    # (v) each object alone in a process of its own
    if sc.get('solo_fresh') and not r.violations:
        r.probes['solo_in_fresh_process'] += 1
        for j in range(len(sc['mons'])):
            scj = dict(sc, mons=[sc['mons'][j]], schedule=[0 for t in sc['schedule'] if t == j], hashseeds=[], solo_fresh=False)
            env = dict(os.environ)
            env['PYTHONHASHSEED'] = '0'
            code = ('import sys, json; sys.path.insert(0, %r); from sim.props import c11; from sim.core import Result, jdump; '
                    'from sim import monitors as M; sc = json.load(sys.stdin); M.set_env(sc.get("_env")); '
                    'print(jdump(c11.in_process(sc, Result())))' % VERIF)
            p = subprocess.run([sys.executable, '-B', '-c', code], input=json.dumps(scj), env=env, capture_output=True, text=True,
                               timeout=120, cwd=VERIF)
            r.evals += 1
            r.faults['fresh_process_solo'] += 1
            got = p.stdout.strip().splitlines()[-1] if p.stdout.strip() else ''
            if p.returncode != 0 or got != jdump([outs[j]]):
                r.violate('cohosted-equals-solo-in-fresh-process', object=j, kind=sc['mons'][j]['kind'], spec=_desc(sc, sc['mons'][j]),
                          cohosted=jdump([outs[j]])[:600], alone=got[:600], stderr=p.stderr[-300:])
                break
    nontriv = 0
    for o in outs:
        flat = repr(o)
        if len(set(map(repr, o))) >= 1 and ('inf' not in flat or any(ch.isdigit() for ch in flat)):
            nontriv += 1
    alternates = sum(1 for a, b in zip(sc['schedule'], sc['schedule'][1:]) if a != b) >= 2
    if nontriv >= 2 and alternates:
        r.nontrivial.add(','.join(sorted(m['kind'] + m['mode'] for m in sc['mons'])) + '|' +
                         ','.join(str(j) for j in sc['schedule']))
    return r


def shrinks(sc):
    k = len(sc['mons'])
    if sc.get('inf_tail'):
        c = copy.deepcopy(sc)
        c['inf_tail'] = []
        yield c
    if sc.get('tuple_columns'):
        c = copy.deepcopy(sc)
        c['tuple_columns'] = False
        yield c
    if sc.get('dup_stamp'):
        c = copy.deepcopy(sc)
        c['dup_stamp'] = []
        yield c
    if sc.get('split_entries'):
        c = copy.deepcopy(sc)
        c['split_entries'] = False
        yield c
    if k > 1:
        for j in range(k):
            c = copy.deepcopy(sc)
            del c['mons'][j]
            c['schedule'] = [t - (1 if t > j else 0) for t in sc['schedule'] if t != j]
            yield c
    if sc.get('hashseeds') and len(sc['hashseeds']) > 1:
        for hs in sc['hashseeds']:
            c = copy.deepcopy(sc)
            c['hashseeds'] = [hs]
            yield c
    if sc['n'] > 1:
        # shorter discrete data: online discrete monitors then need fewer tokens
        c = copy.deepcopy(sc)
        c['n'] = sc['n'] - 1
        c['data'] = dict((v, sc['data'][v][:-1]) for v in sc['data'])
        sched = []
        cnt = {}
        for t in sc['schedule']:
            mo = sc['mons'][t]
            if mo['mode'] == 'on' and not mo['kind'].startswith('ct'):
                cnt[t] = cnt.get(t, 0) + 1
                if cnt[t] > c['n']:
                    continue
            sched.append(t)
        c['schedule'] = sched
        yield c
    for j, mo in enumerate(sc['mons']):
        if mo['mode'] == 'off':
            idx = [i for i, t in enumerate(sc['schedule']) if t == j]
            if len(idx) > 1:
                c = copy.deepcopy(sc)
                del c['schedule'][idx[-1]]
                yield c
        for a2 in sg.shrink_candidates(mo['ast']):
            if not sg.vars_of(a2):
                continue
            c = copy.deepcopy(sc)
            c['mons'][j]['ast'] = a2
            yield c
    if sc.get('share'):
        c = copy.deepcopy(sc)
        c['share'] = False
        yield c
    if sc.get('dup_boundary'):
        c = copy.deepcopy(sc)
        c['dup_boundary'] = False
        yield c
