"""Shared pieces of the property modules: scenario conventions, generic shrinking, fragments."""
import copy

from .. import specgen as sg

REAL_ALL = ['rtamt ANTLR parser + AST builder', 'rtamt pastifier + horizon visitor', 'rtamt interpreters and operations (pure Python)',
            'rtamt specification facade (public API)']
STUBS_ALL = ['simulated sensor clocks', 'simulated plant values', 'transport/batching', 'recorder', 'reference models (oracles)']

VARS = ['a', 'b', 'c', 'd']

PAST_OPS = set(sg.TERM_UN + sg.TERM_BIN + ('pred',) + sg.BOOL_UN + sg.BOOL_BIN + sg.EVENT + sg.SHIFT_PAST + sg.PAST_UN
               + ('since', 'once_b', 'historically_b', 'since_b'))
BOUNDED_FUTURE_OPS = PAST_OPS | set(sg.SHIFT_FUT) | {'eventually_b', 'always_b', 'until_b', 'unless_b'}
NO_UNBOUNDED_FUTURE_OPS = BOUNDED_FUTURE_OPS
DENSE_OFFLINE_OPS = set(sg.ALL_OPS) - set(sg.DISCRETE_ONLY)
DENSE_PAST_OPS = PAST_OPS - set(sg.DISCRETE_ONLY)


def text_of(sc, key='ast', tkey='text'):
    t = sc.get(tkey)
    if t:
        return t
    return 'out = ' + sg.to_text(sc[key]) + ';'


def var_decls(vars_):
    return [[v, 'float'] for v in vars_]


def shrink_discrete(sc, ast_keys=('ast',), extra=None):
    """generic candidates for scenarios {'ast', 'text', 'vars', 'n', 'data'} (+ property-specific extra)"""
    n = sc.get('n')
    data = sc.get('data')
    if extra is not None:
        for c in extra(sc):
            yield c
    if n is not None and data is not None:
        # shorter traces: drop the tail, drop the head
        for m in (1, 2, n // 2, n - 1):
            if 1 <= m < n:
                c = copy.deepcopy(sc)
                c['n'] = m
                c['data'] = dict((v, data[v][:m]) for v in data)
                _fix_len(c, m, head=False)
                yield c
        if n > 1:
            c = copy.deepcopy(sc)
            c['n'] = n - 1
            c['data'] = dict((v, data[v][1:]) for v in data)
            _fix_len(c, n - 1, head=True)
            yield c
    for ak in ast_keys:
        if ak in sc and sc[ak] is not None:
            for a2 in sg.shrink_candidates(sc[ak]):
                c = copy.deepcopy(sc)
                c[ak] = a2
                c['text'] = None
                if ak + '_text' in c:
                    c[ak + '_text'] = None
                yield c
    if data is not None:
        for v in sorted(data):
            for i, x in enumerate(data[v]):
                for y in (0.0, 1.0, -1.0):
                    if x != y and abs(y) <= abs(x):
                        c = copy.deepcopy(sc)
                        c['data'][v][i] = y
                        yield c
                        break


def _fix_len(c, m, head):
    """keep auxiliary per-sample lists (time columns) consistent with the new length"""
    for k in ('times', 'times2', 'times_perfect'):
        if k in c and isinstance(c[k], list):
            c[k] = c[k][1:] if head else c[k][:m]
    for k in ('clocks',):
        if k in c:
            c[k] = [(x[1:] if head else x[:m]) for x in c[k]]


def count_nontrivial(vals):
    """a value list is non-trivial when it has a finite value and is not constant"""
    fin = [v for v in vals if v not in (float('inf'), -float('inf'))]
    return bool(fin) and len(set(vals)) > 1


# ---------------------------------------------------------------------------------------------------
# dense time

DENSE_TICK = 0.25


def dense_bounds(lo, hi, sp):
    """bounds are kept in quarter time units"""
    from fractions import Fraction
    return '[' + sg.fmt_num(Fraction(lo, 4)) + sp.sep() + sg.fmt_num(Fraction(hi, 4)) + ']'


def dense_text(ast, sp=None):
    return 'out = ' + sg.to_text(ast, sp, dense_bounds) + ';'


def const_only_operator(ast):
    """a temporal operator all of whose operands are constant-only (known finding F14c)"""
    for x in sg.walk(ast):
        ch = sg.children(x)
        if x[0] in sg.TEMPORAL and ch and not any(sg.has_var(c) for c in ch):
            return True
    return False


def bounded_op_nonzero_start(ast, signals):
    """a bounded temporal operator whose operand's domain does not start at time 0 (known finding F14a)"""
    for x in sg.walk(ast):
        if x[0] in sg.TUN + sg.TBIN:
            for c in sg.children(x):
                vs = sg.vars_of(c)
                if vs and max(signals[v][0][0] for v in vs) != 0:
                    return True
    return False


def shrink_dense(sc, extra=None):
    """generic candidates for scenarios {'ast', 'text', 'vars', 'signals'}"""
    sig = sc['signals']
    if extra is not None:
        for c in extra(sc):
            yield c
    for v in sorted(sig):
        n = len(sig[v])
        for m in (1, n // 2, n - 1):
            if 1 <= m < n:
                c = copy.deepcopy(sc)
                c['signals'][v] = sig[v][:m]
                yield c
        for i in range(1, n - 1):
            c = copy.deepcopy(sc)
            del c['signals'][v][i]
            yield c
    for a2 in sg.shrink_candidates(sc['ast']):
        c = copy.deepcopy(sc)
        c['ast'] = a2
        c['text'] = None
        yield c
    for v in sorted(sig):
        for i, (t, x) in enumerate(sig[v]):
            for y in (0.0, 1.0, -1.0):
                if x != y and abs(y) <= abs(x):
                    c = copy.deepcopy(sc)
                    c['signals'][v][i][1] = y
                    yield c
                    break


def ref_defined(asts, dense, data, n=None):
    """False when a reference evaluation of any of the formulas is undefined (NaN, domain error, overflow): such a
    scenario is discarded, because an exception or NaN from the real monitor would then not be a defect."""
    from ..ref.discrete import eval_discrete, RefError
    from ..ref import dense as D
    try:
        for a in asts:
            if dense:
                vs = sg.vars_of(a)
                if vs:
                    D.eval_dense(a, dict((v, data[v]) for v in vs))
            else:
                eval_discrete(a, data, n)
    except RefError:
        return False
    except (KeyError, IndexError, ValueError):
        return False
    return True


def stamps_of(sc, n=None):
    """time-stamps of the discrete sensor clock of a scenario (possibly faulty); perfect clock when absent or stale"""
    n = sc['n'] if n is None else n
    t = sc.get('times')
    if isinstance(t, list) and len(t) >= n:
        return t[:n]
    return list(range(n))


def add_clock(rng, sc):
    """attach a (strictly increasing) faulty clock to a discrete scenario; values must not depend on it"""
    from .. import world
    if 'n' in sc:
        sc['times'], sc['fired'] = world.faulty_clock(rng, sc['n'], kinds=[k for k in ('jitter_in', 'jitter_out', 'offset', 'float_stamps')
                                                                          if rng.random() < 0.35])
        add_redelivery(rng, sc, p=0.1)
    return sc


def add_redelivery(rng, sc, p=0.15):
    """transport fault 'redelivery' (at-least-once transport): one or two ticks of a discrete stream are verbatim repeats of
    their predecessor - the same time-stamp AND the same value of every variable (and the same input order). The monitor has to
    treat them as samples like any other (C02: the i-th update equals the offline value at sample i)"""
    n = sc.get('n') or 0
    if n < 2 or rng.random() >= p or 'times' not in sc or 'data' not in sc:
        return 0
    k = 0
    for _ in range(rng.randint(1, 2)):
        i = rng.randrange(1, n)
        sc['times'][i] = sc['times'][i - 1]
        for v in sc['data']:
            sc['data'][v][i] = sc['data'][v][i - 1]
        if sc.get('orders'):
            sc['orders'][i] = list(sc['orders'][i - 1])
        k += 1
    sc.setdefault('fired', {})['sample_redelivered_verbatim'] = k
    return k


def gen_shared_arith(rng, vars_, mode):
    """directed skeleton: an arithmetic sub-specification p1 shared by several predicates (bare, as left or right operand of
    another arithmetic operator whose other operand may be a variable of the other i/o kind, under abs / unary minus); the i/o
    sets of a shared node must not be polluted by one of its users. Returns (definition of p1, top formula using ['ref', 'p1'])"""
    def term(d):
        if d <= 0 or rng.random() < 0.4:
            return ['var', rng.choice(vars_)]
        op = rng.choice(['+', '-', '*', 'abs', 'neg'])
        return [op, term(d - 1)] if op in ('abs', 'neg') else [op, term(d - 1), term(d - 1)]
    t1 = term(2)
    if t1[0] == 'var':
        t1 = ['+', t1, ['var', rng.choice(vars_)]]
    ref1 = ['ref', 'p1']

    def use():
        r_ = rng.random()
        if r_ < 0.3:
            return ref1
        op = rng.choice(['+', '-', '*'])
        other = ['var', rng.choice(vars_)] if rng.random() < 0.7 else ['const', rng.choice(sg.LATTICE)]
        if r_ < 0.65:
            return [op, ref1, other]
        if r_ < 0.9:
            return [op, other, ref1]
        return [rng.choice(['abs', 'neg']), ref1]
    def rhs():
        return ['const', rng.choice(sg.LATTICE)] if rng.random() < 0.6 else ['var', rng.choice(vars_)]
    preds = [['pred', rng.choice(sg.CMPS), use(), rhs()] for _ in range(rng.randint(2, 3))]
    preds = [(q if rng.random() < 0.8 else ['pred', q[1], q[3], q[2]]) for q in preds]
    top = preds[0]
    for q in preds[1:]:
        top = [rng.choice(['and', 'or', 'implies']), top, q] if rng.random() < 0.5 else [rng.choice(['and', 'or', 'implies']), q, top]
    if rng.random() < 0.4:
        w = rng.choice(['once', 'historically'] + ([] if mode == 'on' else ['always', 'eventually']))
        top = [w, top]
    return t1, top


def iastl_safe(ast):
    """interface-aware semantics replace predicates by +-inf: a formula is free of inf - inf (NaN, outside the numeric envelope)
    when no predicate or arithmetic operator has a formula-valued operand and iff / xor do not occur"""
    def has_pred(n):
        return any(x[0] == 'pred' or x[0] in sg.BOOL_UN + sg.BOOL_BIN for x in sg.walk(n))
    for x in sg.walk(ast):
        if x[0] in ('iff', 'xor'):
            return False
        if x[0] == 'pred' or x[0] in sg.TERM_UN + sg.TERM_BIN:
            if any(has_pred(c) for c in sg.children(x)):
                return False
    return True


def draw_iastl(rng, vars_, ast, p=0.25):
    """with probability p (and only for formulas that stay NaN-free): an interface-aware semantics and input/output declarations,
    to be given to EVERY real monitor of the run alike (the combined classes 'dt' / 'ct' take a semantics). Checks whose oracle
    is a second real monitor use it as one more configuration; the hooked reference (c06) gives definedness."""
    if rng.random() >= p:
        return None
    ia = {'sem': rng.choice(['output-robustness', 'input-robustness', 'output-vacuity', 'input-vacuity']),
          'io': dict((v, rng.choice(['input', 'output'])) for v in vars_ if rng.random() < 0.85)}
    return ia if iastl_safe(ast) else None


def iastl_hook(ia, scalar=True):
    from . import c06
    return (c06.hook_scalar if scalar else c06.hook_list)(ia['sem'], ia['io'])


def ref_defined_on_prefixes(asts, data, n):
    """an online monitor sees every prefix of the trace: all of them must be defined"""
    for m in range(1, n + 1):
        if not ref_defined(asts, False, dict((v, data[v][:m]) for v in data), m):
            return False
    return True


def warmup_visible(ast):
    """Regions of the open known finding F08 (the warm-up outputs of a delayed operand are visible to the operator
    above it). Returns the names of the envelope rules the formula falls under:
      memory-past-above-delayed           a memoryful past operator above a sub-formula with horizon > 0
      partial-function-over-delayed       log(x, base) whose two operands have different horizons: the shallower one is
                                          delayed by once[d,d], is -inf during the first d updates and math.log raises
                                          (pow and division accept -inf)
    """
    out = []
    for x in sg.walk(ast):
        ch = sg.children(x)
        if x[0] in sg.MEMORY_PAST and any(sg.horizon(c) > 0 for c in ch):
            if 'memory-past-above-delayed' not in out:
                out.append('memory-past-above-delayed')
        if x[0] == 'log' and len(ch) == 2 and sg.horizon(ch[0]) != sg.horizon(ch[1]):
            if 'partial-function-over-delayed' not in out:
                out.append('partial-function-over-delayed')
    return out


def warmup_extra(ast):
    """How many updates beyond the horizon the warm-up outputs of a delayed operand stay visible (finding F08).
    A past operator with memory m (prev/s_prev/rise/fall: 1, a bounded operator: its upper bound, an unbounded one: inf)
    above a sub-formula with horizon > 0 reads m earlier outputs of that sub-formula; outputs produced before the
    sub-formula's own delay has elapsed are not values of the original formula at any instant. From update
    horizon + warmup_extra on, every operator only reads outputs from after the warm-up, and the property's equation must hold
    exactly. Returns a number of updates (0 outside the F08 region, inf when the memory is unbounded)."""
    def go(x):
        ch = sg.children(x)
        if not ch or sg.horizon(x) == 0:
            return 0            # a future-free sub-formula is evaluated undelayed and delayed as a whole
        e = max(go(c) for c in ch)
        k = x[0]
        if k in sg.MEMORY_PAST:
            if k in sg.EVENT + sg.SHIFT_PAST:
                m = 1
            elif k in ('once_b', 'historically_b', 'since_b'):
                m = x[2]
            else:
                m = float('inf')
            return e + m
        return e
    return go(ast)


def f08_blind(ast):
    """the part of the F08/F08b region in which nothing can be compared: unbounded memory above a delayed operand, or
    log over operands of different horizons (raises during the warm-up)"""
    rules = [x for x in warmup_visible(ast) if x != 'memory-past-above-delayed']
    if warmup_extra(ast) == float('inf'):
        rules.append('memory-past-above-delayed')
    return rules


def nudge_to_thresholds(rng, ast, data, p=0.35):
    """some samples are moved next to the constants of the formula (exactly on one, or a few 1e-8 beside it): values between
    two thresholds that differ in a late decimal, strict against non-strict comparison. data: {var: [values]}; in place."""
    cs = sorted(set(x[1] for x in sg.walk(ast) if x[0] == 'const'))
    if not cs:
        return 0
    k = 0
    for v in sorted(data):
        col = data[v]
        for i in range(len(col)):
            if isinstance(col[i], (int, float)) and abs(col[i]) < 1e6 and rng.random() < p:
                col[i] = round(cs[rng.randrange(len(cs))] + rng.choice([0.0, 5e-8, -5e-8, 1.5e-7, -1.5e-7, 5e-11]), 12)
                k += 1
    return k


def consts_to_refs(ast, consts):
    """replace literal leaves by references to declared constants; consts = [[name, value, how], ...]"""
    inv = dict((v, k) for k, v, _ in consts)
    if not inv:
        return ast

    def go(n):
        if n[0] == 'const' and n[1] in inv:
            return ['ref', inv[n[1]]]
        return sg.with_children(n, [go(c) for c in sg.children(n)])
    return go(ast)


def gen_shared_delays(rng, vars_, ops, **cfg):
    """a formula in which one sub-formula is used at two places that need different delays after pastify(), together with
    its modular form: returns (ast, defs, top) with defs = [['p1', shared]] and top referring to it through ['ref', 'p1']"""
    for _ in range(50):
        shared = sg.gen_formula(rng, sg.GenCfg(vars=vars_, ops=ops, max_depth=rng.randint(1, 2), max_bound=2, **cfg))
        if shared[0] not in ('var', 'const') and shared[0] not in sg.TERM_UN + sg.TERM_BIN and sg.vars_of(shared):
            break
    else:
        return None

    def wrap(x):
        for _ in range(rng.randint(1, 2)):
            o = rng.choice(['eventually_b', 'always_b', 'next', 'not'])
            x = [o, x] if o in ('next', 'not') else [o, rng.randint(0, 1), rng.randint(1, 3), x]
        return x
    l, r_ = wrap(shared), (shared if rng.random() < 0.6 else wrap(shared))
    if rng.random() < 0.5:
        l, r_ = r_, l
    ast = [rng.choice(['and', 'or', 'implies']), l, r_]

    def cut(x):
        if sg.key(x) == sg.key(shared):
            return ['ref', 'p1']
        return sg.with_children(x, [cut(c) for c in sg.children(x)])
    return ast, [['p1', shared]], cut(ast)


def structify(ast, structs):
    """the same formula with the struct-typed variables read through their field: a -> a.value (text rendering only)"""
    if not structs:
        return ast
    paths = structs if isinstance(structs, dict) else dict((v, 'value') for v in structs)

    def go(n):
        if n[0] == 'var' and n[1] in paths:
            return ['var', n[1] + '.' + paths[n[1]]]
        return sg.with_children(n, [go(c) for c in sg.children(n)])
    return go(ast)


def scale_bounds(ast, k):
    """the same formula with every interval bound multiplied by k (the unit of the bounds became k ticks)"""
    def go(n):
        ch = [go(c) for c in sg.children(n)]
        if n[0] in sg.TUN + sg.TBIN:
            n = [n[0], n[1] * k, n[2] * k] + list(n[3:])
        return sg.with_children(n, ch)
    return go(ast)


def fine_const_bounds(ast, sp=None):
    """dense-time text for a specification whose default unit is 'us' and whose bounds are DECLARED CONSTANTS written in
    seconds (sub-microsecond resolution: 0.00000025 s): returns (text, consts) with consts = [[name, 'float', decimal text], ...]"""
    from fractions import Fraction
    consts = {}

    def one(q):
        if q == 0:
            return '0'
        name = 'T%d' % q
        consts[name] = sg.fmt_num(Fraction(q, 4) / 10 ** 6)        # q quarter-microseconds in seconds
        return name + ' s'

    def bp(lo, hi, sp_):
        return '[' + one(lo) + ':' + one(hi) + ']'
    text = 'out = ' + sg.to_text(ast, sp, bp) + ';'
    return text, [[k, 'float', consts[k]] for k in sorted(consts)]
