"""C01 - discrete-time offline robustness equals the README semantics; independent of time-stamps.

Run: a discrete sensor with a faulty clock records n >= 1 samples; the real offline monitor evaluates the log
under the perfect clock and under one or two differently faulted clocks.
Oracle: one [t, v] pair per sample with t = supplied stamp; v = RefDiscrete at every index; identical values
under every clock.
"""
from .. import specgen as sg
from .. import monitors as M
from .. import world
from .. import units
from ..core import Result
from ..ref.discrete import eval_discrete, RefError
from . import common

ID = 'C01'
LEVEL = 'exploration'
RUNS = {'quick': 80000, 'thorough': 600000}
SIM_TIME_UNIT = 'samples'
RULE = ('seeded generation of (specification over the whole STL grammar, trace of 1..12 samples, 1-3 sensor clocks with '
        'jitter/drift/jump/offset faults); a case is non-trivial when the reference value list contains a finite value and is '
        'not constant; distinct = distinct (operator skeleton, trace length, clock-fault set)')
ASSUMPTIONS = ['RefDiscrete (sim/ref/discrete.py) is the README definition; prev/next weak, s_prev/s_next strong',
               'sqrt/ln/log/unary minus mean math.sqrt/math.log/negation (not in the README table)',
               'scenarios whose reference value is NaN or raises a domain/overflow error are discarded, not evaluated',
               'finite values compared with relative tolerance 1e-9, infinities exactly',
               'time-stamps strictly increasing']
REAL = common.REAL_ALL
STUBS = common.STUBS_ALL
PROBES = ['integer_samples_above_2^53', 'one_sample_trace', 'window_longer_than_trace', 'result_starts_with_inf', 'same_name_twice', 'negative_literal',
          'combined_class', 'declared_constant', 'modular_specification', 'declared_number_with_more_than_6_digits', 'configured_unit_and_period']

PRECISE = [1.2345678, 0.1234567891, 3.14159265, 1234567.25, 0.30000000000000004, 2.0000001]


def gen(rng, tier):
    big = tier == 'thorough'
    nv = rng.randint(1, 4 if big else 3)
    vars_ = common.VARS[:nv]
    cfg = sg.GenCfg(vars=vars_, max_depth=rng.randint(2, 6 if big else 5), max_bound=rng.choice([2, 4, 4, 6] + ([8, 10] if big else [])),
                    p_reuse=rng.choice([0.0, 0.1, 0.3]), p_loose=rng.choice([0.08, 0.08, 0.35]))
    if rng.random() < 0.15:
        cfg.lattice = sg.LATTICE + PRECISE       # literals with more significant digits than '%g' keeps
    ast = sg.gen_formula(rng, cfg)
    # some literals become declared constants (declare_const with a number or with its decimal text)
    consts = []
    if rng.random() < 0.25:
        lits = sorted(set(x[1] for x in sg.walk(ast) if x[0] == 'const' and x[1] >= 0))
        rng.shuffle(lits)
        for i, v in enumerate(lits[:rng.randint(1, 2)]):
            consts.append(['k%d' % (i + 1), v, rng.choice(['number', 'text'])])
    notation = None
    if rng.random() < 0.2:
        # a configured default unit / sampling period: the bounds (in samples) are written in that notation
        notation = units.gen_notation(rng, p_plain=0.0)
    try:
        text = 'out = ' + sg.to_text(common.consts_to_refs(ast, consts), sg.Spelling(rng),
                                     units.bounds_printer(notation, rng) if notation else None) + (';' if rng.random() < 0.8 else '')
    except ValueError:
        notation = None
        text = 'out = ' + sg.to_text(common.consts_to_refs(ast, consts), sg.Spelling(rng)) + (';' if rng.random() < 0.8 else '')
    subspecs = None
    if not consts and notation is None and sg.size(ast) >= 4 and rng.random() < 0.2:
        # the same specification written with named sub-specifications (several assertions in one text, or add_sub_spec)
        defs, top = sg.modularize(rng, ast, max_subs=3, prefer_stateful=rng.random() < 0.5)
        if rng.random() < 0.3:
            defs, top = sg.add_alias(rng, defs, top, 'q1')       # a bare number or variable with a name of its own
        sp = sg.Spelling(rng)
        subs = ['%s = %s;' % (nm, sg.to_text(a, sp)) for nm, a in defs]
        text = 'out = ' + sg.to_text(top, sp) + ';'
        if rng.random() < 0.5:
            text = '\n'.join(subs + [text])
        else:
            subspecs = subs
    n = rng.choice([1, 1, 2, 2, 3, 4, 5, 6, 8, 10, 12] + ([16, 20, 24] if big else []))
    if rng.random() < 0.012 and sg.size(ast) <= 12 and not any(x[0] == 'exp' for x in sg.walk(ast)):
        n = rng.choice([65, 100, 130, 257, 300])      # a long log (fast paths that switch at a size, identity of small ints ...)
    data = world.gen_trace(rng, vars_, n, p_bigint=0.06)
    if rng.random() < 0.08:
        common.nudge_to_thresholds(rng, ast, data)      # samples on, or a few 1e-8 beside, the constants of the formula
    clocks = [world.perfect_clock(n)]
    fired = {}
    for _ in range(rng.randint(1, 2)):
        st, f = world.faulty_clock(rng, n)
        clocks.append(st)
        for k in f:
            fired[k] = fired.get(k, 0) + f[k]
    cls = 'dt_off' if rng.random() < 0.7 else 'dt'
    second = None
    if rng.random() < 0.2:
        # the same specification object is used for a second, different log (shorter, equal or longer)
        n2 = rng.choice([1, 2, 3, max(1, n - 1), n, n + 1, n + 3])
        second = {'n': n2, 'data': world.gen_trace(rng, vars_, n2)}
    order = list(vars_)
    rng.shuffle(order)
    # a re-configured object: it was used with spec.unit = 'ms' and a 1 ms period, then only the unit is set to 's'
    # (every unit-less bound now means 1000 samples)
    reunit = rng.random() < 0.08 and not any(x[0] in sg.TBIN for x in sg.walk(ast)) and not consts
    if notation:
        clocks = [units.stamps(notation, n)]      # (faulty clocks are generated for a 1 s period only)
        reunit = False
        second = None
    return {'notation': notation, 'reunit': reunit, 'vars': vars_, 'ast': ast, 'text': text, 'n': n, 'data': data, 'clocks': clocks, 'fired': fired,
            'cls': cls, 'order': order, 'consts': consts, 'second': second, 'subspecs': subspecs}


def run(sc):
    r = Result()
    ast, n, data = sc['ast'], sc['n'], sc['data']
    try:
        ref = eval_discrete(ast, data, n)
    except RefError:
        r.discarded = True
        return r
    r.faults.update(sc.get('fired', {}))
    if any(isinstance(x, int) and abs(x) > 2 ** 53 for v in data for x in data[v]):
        r.probes['integer_samples_above_2^53'] += 1
    consts = sc.get('consts') or []
    text = common.text_of(sc) if sc.get('text') else 'out = ' + sg.to_text(common.consts_to_refs(ast, consts)) + ';'
    desc = {'cls': sc.get('cls', 'dt_off'), 'vars': common.var_decls(sc['vars']), 'spec': text,
            'consts': [[k, 'float', (v if how == 'number' else sg.fmt_num(v))] for k, v, how in consts]}
    if sc.get('text') and (sc.get('subspecs') or '\n' in text):
        desc['subspecs'] = sc.get('subspecs') or []
        r.probes['modular_specification'] += 1
    if sc.get('notation') and sc.get('text'):
        desc.update(units.spec_config(sc['notation']))
        r.probes['configured_unit_and_period'] += 1
    if consts:
        r.probes['declared_constant'] += 1
        if any(how == 'number' and ('%g' % v) != repr(float(v)) and float('%g' % v) != v for k, v, how in consts):
            r.probes['declared_number_with_more_than_6_digits'] += 1
    outs = []
    for ci, times in enumerate(sc['clocks']):
        try:
            spec = M.build(desc)
            r.api_calls += 2
            out = M.dt_evaluate(spec, times, data, sc.get('order'))
        except M.ApiCrash as e:
            r.crashes[e.exc_type] += 1
            r.violate('evaluate-raised', clock=ci, **e.describe())
            r.obs.append(['crash', e.exc_type])
            continue
        r.obs.append(out)
        r.sim_time += n
        ok_shape = isinstance(out, list) and len(out) == n and all(
            isinstance(p, (list, tuple)) and len(p) == 2 for p in out)
        r.evals += 1
        if not ok_shape:
            r.violate('one-pair-per-sample', clock=ci, n=n, got_len=(len(out) if hasattr(out, '__len__') else None))
            continue
        if not all(p[0] == t for p, t in zip(out, times)):
            r.violate('timestamp-echo', clock=ci, times=times, got=[p[0] for p in out])
        vals = [p[1] for p in out]
        outs.append(vals)
        r.evals += 1
        if not M.list_eq(vals, ref):
            r.violate('value-equals-reference', clock=ci, spec=text, data=data, got=vals, want=ref)
        sec = sc.get('second')
        if ci == 0 and sec:
            try:
                ref2 = eval_discrete(ast, sec['data'], sec['n'])
            except RefError:
                continue
            r.faults['object_reused_for_second_log'] += 1
            try:
                out2 = M.dt_evaluate(spec, world.perfect_clock(sec['n']), sec['data'], sc.get('order'))
            except M.ApiCrash as e:
                r.crashes[e.exc_type] += 1
                r.violate('evaluate-raised', second_log=True, first_n=n, **e.describe())
                continue
            r.evals += 1
            r.sim_time += sec['n']
            r.obs.append(out2)
            if not (isinstance(out2, list) and len(out2) == sec['n'] and M.list_eq([p[1] for p in out2], ref2)):
                r.violate('value-equals-reference', second_log=True, spec=text, first=data, data=sec['data'], got=out2, want=ref2)
    if sc.get('reunit') and any(x[0] in sg.TUN for x in sg.walk(ast)):
        try:
            ref3 = eval_discrete(common.scale_bounds(ast, 1000), data, n)
        except RefError:
            ref3 = None
        if ref3 is not None:
            r.faults['object_reconfigured_after_use'] += 1
            d3 = dict(desc, unit='s', sampling=[1, 'ms', 0.1],
                      prior={'unit': 'ms', 'sampling': [1, 'ms', 0.1], 'data': data, 'times': list(range(n))})
            try:
                out3 = M.dt_evaluate(M.build(d3), [i * 0.001 for i in range(n)], data, sc.get('order'))
                r.evals += 1
                if not (isinstance(out3, list) and len(out3) == n and M.list_eq([p[1] for p in out3], ref3)):
                    r.violate('value-equals-reference', reconfigured=True, spec=text, data=data, got=out3, want=ref3)
            except M.ApiCrash as e:
                r.crashes[e.exc_type] += 1
                r.violate('evaluate-raised', reconfigured=True, **e.describe())
    r.evals += 1
    for vals in outs[1:]:
        if not M.list_eq(vals, outs[0]):
            r.violate('timestamp-independence', spec=text, data=data, a=outs[0], b=vals, clocks=sc['clocks'])
    if common.count_nontrivial(ref):
        r.nontrivial.add('%s|n=%d|%s' % (sg.shape(ast), n, ','.join(sorted(sc.get('fired', {})))))
    # probes
    ops = sg.ops_of(ast)
    if n == 1:
        r.probes['one_sample_trace'] += 1
    for x in sg.walk(ast):
        if x[0] in sg.TUN + sg.TBIN and x[2] >= n:
            r.probes['window_longer_than_trace'] += 1
            break
    if ref and ref[0] in (float('inf'), -float('inf')):
        r.probes['result_starts_with_inf'] += 1
    keys = [sg.key(x) for x in sg.walk(ast) if x[0] not in ('var', 'const')]
    if len(keys) != len(set(keys)):
        r.probes['same_name_twice'] += 1
    if 'neg' in ops or any(x[0] == 'const' and x[1] < 0 for x in sg.walk(ast)):
        r.probes['negative_literal'] += 1
    if sc.get('cls') == 'dt':
        r.probes['combined_class'] += 1
    return r


def shrinks(sc):
    def extra(s):
        if len(s['clocks']) > 1:
            for i in range(len(s['clocks'])):
                c = dict(s)
                c['clocks'] = [x for j, x in enumerate(s['clocks']) if j != i]
                yield c
        if s.get('consts'):
            c = dict(s)
            c['consts'] = []
            c['text'] = None
            yield c
        if s.get('second'):
            c = dict(s)
            c['second'] = None
            yield c
        if s.get('reunit'):
            c = dict(s)
            c['reunit'] = False
            yield c
        if s.get('cls') != 'dt_off':
            c = dict(s)
            c['cls'] = 'dt_off'
            yield c
    for c in common.shrink_discrete(sc, extra=extra):
        yield c
