"""C08 - temporal bounds denote physical durations whatever the unit notation.

Run: one specification (bounds in ticks) is printed under a fleet of notations that denote the same durations:
explicit units (s ms us ns) on either or both ends, the default unit via spec.unit, the sampling period given in
another unit. Each member of the fleet is a real monitor; the fleet is fed the same sample values (stamps in each
member's default unit) offline, online, and online after pastify(). A dense-time fleet checks a consistent change
of unit notation (bounds with suffixes; default unit changed together with the time axis).
A second kind of run writes a bound that is not an integer multiple of the sampling period.
Oracle: identical outputs across the fleet at every step; the non-multiple bound raises RTAMTException at parse(),
pastify() or the first evaluation - no other exception type and never a value.
"""
import copy
from fractions import Fraction

from .. import specgen as sg
from .. import monitors as M
from .. import world
from .. import units
from ..core import Result
from ..ref import dense as D
from . import common

ID = 'C08'
LEVEL = 'exploration'
RUNS = {'quick': 24000, 'thorough': 150000}
SIM_TIME_UNIT = 'samples'
RULE = ('seeded generation of (specification, tick duration, fleet of 3-5 equivalent notations, mode offline/online/pastified/'
        'dense, data) and of non-multiple bounds; every update is a checked history for the online modes; non-trivial = the '
        'fleet output is finite somewhere and not constant and at least two notations differ textually; distinct = distinct '
        '(operator skeleton, mode, set of notation classes)')
ASSUMPTIONS = ['fleet members are compared with each other (no reference model); member 0 is the plain notation when feasible',
               'stamps are given in the default unit of each member', 'only bounds with finite decimal spellings are generated',
               'pastified members are compared among themselves (the delay semantics is C03)']
REAL = common.REAL_ALL
STUBS = common.STUBS_ALL
PROBES = ['period_unit_omitted', 'sampling_period_set_before_unit', 'unit_on_one_end_only', 'mixed_units_in_one_interval', 'default_unit_not_s', 'period_unit_differs_from_default_unit',
          'pastified', 'dense_fleet', 'non_multiple_bound', 'non_multiple_rejected_at_parse_or_pastify', 'non_multiple_rejected_at_first_evaluation',
          'same_numerals_different_unit', 'reconfigured_object', 'reconfigured_to_non_multiple', 'bounds_as_declared_constants']

TICKS = [
    [(1, 's'), (1000, 'ms'), (1000000, 'us'), (1000000000, 'ns')],
    [(500, 'ms'), (500000, 'us'), (500000000, 'ns')],
    [(2, 's'), (2000, 'ms')],
    [(100, 'ms'), (100000, 'us')],
    [(10, 'us'), (10000, 'ns')],
    [(1, 'ms'), (1000, 'us')],
    [(250, 'ms'), (250000, 'us')],
]


def _bounds_as_constants(text):
    import re
    consts = {}

    def one(m):
        num, unit = m.group(1), m.group(2) or ''
        name = 'B' + num.replace('.', 'p')
        consts[name] = num
        return name + ((' ' + unit) if unit else '')

    def interval(m):
        return '[' + re.sub(r'([0-9]+(?:\.[0-9]+)?)(s|ms|us|ns)?', one, m.group(1)) + ']'
    text = re.sub(r'\[([0-9.]+(?:s|ms|us|ns)?[,:][0-9.]+(?:s|ms|us|ns)?)\]', interval, text)
    return text, sorted(consts.items())


def gen_same_numerals(rng):
    """directed fleet: one formula with two bounded operators over the same operand whose intervals are written with the
    same numerals and differ only in a unit ([1:2ms] and [1:2s]); the other member writes both in ticks"""
    fine, coarse = rng.choice([('ms', 's'), ('us', 'ms'), ('ns', 'us')])
    vars_ = common.VARS[:rng.randint(1, 2)]
    mode = rng.choice(['offline', 'online', 'online'])
    # (bounded since/until cost at least one operator or one pass per step of the window: too slow for a 1000-fold window)
    op = rng.choice(['once_b', 'historically_b'] + (['eventually_b', 'always_b'] if mode == 'offline' else []))

    def pr():
        return ['pred', rng.choice(['>=', '<=']), ['var', rng.choice(vars_)], ['const', rng.choice(sg.LATTICE)]]
    x = pr() if rng.random() < 0.6 else [rng.choice(['and', 'or']), pr(), pr()]
    y = pr()
    lo = rng.randint(0, 2)
    hi = lo + rng.randint(1, 2)
    where = rng.choice(['end', 'begin', 'both-end', 'both-begin'])
    if where == 'end':          # [lo:hi fine] / [lo:hi coarse]: a unit on the end only is inherited by the begin
        t1, t2, i2 = '[%d:%d%s]' % (lo, hi, fine), '[%d:%d%s]' % (lo, hi, coarse), (1000 * lo, 1000 * hi)
    elif where == 'begin':
        t1, t2, i2 = '[%d%s:%d]' % (lo, fine, hi), '[%d%s:%d]' % (lo, coarse, hi), (1000 * lo, 1000 * hi)
    elif where == 'both-end':
        t1, t2, i2 = '[%d%s:%d%s]' % (lo, fine, hi, fine), '[%d%s:%d%s]' % (lo, fine, hi, coarse), (lo, 1000 * hi)
    else:
        t1, t2, i2 = '[%d%s:%d%s]' % (lo, fine, hi + 1000, fine), '[%d%s:%d%s]' % (lo, coarse, hi + 1000, fine), (1000 * lo, hi + 1000)
        hi = hi + 1000
    mk = (lambda l, h: [op, l, h, x, y]) if op in sg.TBIN else (lambda l, h: [op, l, h, x])
    a1, a2 = mk(lo, hi), mk(i2[0], i2[1])
    ast = [rng.choice(['and', 'or', 'implies']), a1, a2] if rng.random() < 0.5 else [rng.choice(['and', 'or', 'implies']), a2, a1]
    table = {(lo, hi): t1, i2: t2}
    nt_a = {'period': 1, 'pu': fine, 'du': fine, 'tol': 0.1, 'style': 'plain'}
    nt_b = dict(nt_a, style='random')
    text_a = 'out = ' + sg.to_text(ast, None, units.bounds_printer(nt_a, None)) + ';'
    text_b = 'out = ' + sg.to_text(ast, None, lambda l, h, sp: table[(l, h)]) + ';'
    n = rng.randint(3, 9)
    return {'kind': 'fleet', 'mode': mode, 'vars': vars_, 'ast': ast, 'fleet': [nt_a, nt_b], 'texts': [text_a, text_b], 'n': n,
            'data': world.gen_trace(rng, vars_, n), 'same_numerals': True}


CONFIGS = [{}, {'unit': 'ms'}, {'unit': 'ms', 'sampling': [1, 'ms', 0.1]}, {'sampling': [10, 'ms', 0.1], 'unit': 'ms'},
           {'sampling': [20, 'ms', 0.1], 'unit': 'ms'}, {'sampling': [2, 's', 0.1]}, {'sampling': [500, 'ms', 0.1]},
           {'sampling': [1, 'ms', 0.1]}, {'sampling': [1, 'ms', 0.1], 'unit': 'us'}, {'sampling': [0.5, 's', 0.1]},
           {'sampling': [0.25, 's', 0.1], 'unit': 'ms'}, {'sampling': [1000, 'us', 0.1], 'unit': 'ms'}]


def gen_reconfig(rng):
    """an offline object that was configured differently (and used) before: after re-configuration it must behave like a
    fresh object with the final configuration - same values, or the same rejection of a bound that is no multiple"""
    vars_ = common.VARS[:rng.randint(1, 2)]
    for _ in range(100):
        ast = sg.gen_formula(rng, sg.GenCfg(vars=vars_, ops=set(sg.ALL_OPS) - {'since_b', 'until_b', 'unless_b'}, max_depth=rng.randint(1, 3),
                                            max_bound=rng.choice([2, 4])))
        if any(x[0] in sg.TUN for x in sg.walk(ast)):
            break
    # bounds are written as plain numbers or with an explicit unit, independently of both configurations
    first, final = rng.sample(CONFIGS, 2)
    tick = min(Fraction(c.get('sampling', [1, 's'])[0]) * units.U[c.get('sampling', [1, 's'])[1]] for c in (first, final))
    coarse = max(units.U[c.get('unit') or 's'] for c in (first, final))

    def bp(lo, hi, sp):
        for _ in range(20):
            u = rng.choice(['', '', 'ms', 's'])
            k = rng.choice([1, 1, 10, 20, 500, 1000])
            if hi * k * (units.U[u] if u else coarse) <= 4000 * tick:      # windows stay below a few thousand samples
                break
        else:
            u, k = 'ms', 1
        return '[%d%s:%d%s]' % (lo * k, u, hi * k, u if rng.random() < 0.8 else '')
    text = 'out = ' + sg.to_text(ast, sg.Spelling(rng), bp) + ';'
    n = rng.randint(2, 9)
    return {'kind': 'reconfig', 'vars': vars_, 'text': text, 'first': first, 'final': final, 'n': n, 'data': world.gen_trace(rng, vars_, n),
            'use_first': rng.random() < 0.8}


def _stamps_for(cfg, n):
    p, u, _ = cfg.get('sampling') or [1, 's', 0.1]
    step = Fraction(p) * units.U[u] / units.U[cfg.get('unit') or 's']
    return [float(i * step) if (i * step).denominator != 1 else int(i * step) for i in range(n)]


def run_reconfig(sc):
    r = Result()
    r.probes['reconfigured_object'] += 1
    r.faults['reconfigured_after_use' if sc.get('use_first') else 'reconfigured_before_use'] += 1
    n, data = sc['n'], sc['data']
    base = {'cls': 'dt_off', 'vars': common.var_decls(sc['vars']), 'spec': sc['text']}
    base.update(sc['final'])
    times = _stamps_for(sc['final'], n)
    prior = dict(sc['first'])
    if sc.get('use_first'):
        prior['data'] = data
        prior['times'] = _stamps_for(sc['first'], n)

    def outcome(desc):
        try:
            return ['values', [p[1] for p in M.dt_evaluate(M.build(desc), times, data)]]
        except M.ApiCrash as e:
            return ['rtamt-exception' if e.is_rtamt else 'crash:' + e.exc_type, e.describe().get('msg')]
    fresh = outcome(base)
    used = outcome(dict(base, prior=prior))
    r.api_calls += 8
    r.evals += 1
    r.sim_time += n
    r.obs.append(fresh)
    same = fresh[0] == used[0] and (fresh[0] != 'values' or (len(fresh[1]) == len(used[1]) and all(eqn(a, b) for a, b in zip(fresh[1], used[1]))))
    if fresh[0].startswith('crash'):
        r.violate('fleet-member-raised', spec=sc['text'], config=sc['final'], outcome=fresh)
    elif not same:
        r.violate('reconfigured-object-equals-fresh', spec=sc['text'], first=sc['first'], final=sc['final'], used_before=bool(sc.get('use_first')),
                  data=data, fresh=fresh, reconfigured=used)
    if fresh[0] == 'values' and common.count_nontrivial(fresh[1]):
        r.nontrivial.add('reconfig|%s|%s' % (sorted(sc['first'].items()), sorted(sc['final'].items())))
    if fresh[0] == 'rtamt-exception':
        r.probes['reconfigured_to_non_multiple'] += 1
    return r


def gen(rng, tier):
    r = rng.random()
    if r < 0.04:
        return gen_reconfig(rng)
    if r < 0.08:
        return gen_same_numerals(rng)
    if r < 0.15:
        return gen_nonmultiple(rng)
    if r < 0.35:
        return gen_dense(rng)
    mode = rng.choice(['offline', 'online', 'pastified'])
    nv = rng.randint(1, 2)
    vars_ = common.VARS[:nv]
    ops = {'offline': set(sg.ALL_OPS), 'online': common.PAST_OPS, 'pastified': common.BOUNDED_FUTURE_OPS - {'log'}}[mode]   # log: F08
    for _ in range(100):
        ast = sg.gen_formula(rng, sg.GenCfg(vars=vars_, ops=ops, max_depth=rng.randint(2, 4), max_bound=rng.choice([2, 3, 5])))
        if any(x[0] in sg.TUN + sg.TBIN for x in sg.walk(ast)):
            break
    cls_ = TICKS[rng.randrange(len(TICKS))]
    fleet = []
    texts = []
    k = rng.randint(3, 5)
    for j in range(k):
        P, pu = cls_[rng.randrange(len(cls_))]
        nt = {'period': P, 'pu': pu, 'du': rng.choice([None, 's', 'ms', 'us', 'ns']), 'tol': 0.1, 'style': 'random',
              'force_sampling': rng.random() < 0.3, 'omit_unit': rng.random() < 0.5, 'sampling_first': rng.random() < 0.4}
        if not units.feasible(1, nt, ''):
            nt['du'] = pu
        if j == 0 and (P, pu) == cls_[0]:
            nt['style'] = 'plain'
        if j > 0 and rng.random() < 0.2:
            nt['const_bounds'] = rng.choice(['api', 'text'])
        try:
            text = 'out = ' + sg.to_text(ast, sg.Spelling(rng), units.bounds_printer(nt, rng)) + ';'
        except ValueError:
            continue
        fleet.append(nt)
        texts.append(text)
    n = rng.randint(1, 9) + (int(sg.horizon(ast)) if mode == 'pastified' else 0)
    data = world.gen_trace(rng, vars_, n)
    return {'kind': 'fleet', 'mode': mode, 'vars': vars_, 'ast': ast, 'fleet': fleet, 'texts': texts, 'n': n, 'data': data}


def gen_dense(rng):
    nv = rng.randint(1, 2)
    vars_ = common.VARS[:nv]
    mode = rng.choice(['offline', 'online'])
    ops = common.DENSE_OFFLINE_OPS if mode == 'offline' else common.DENSE_PAST_OPS
    for _ in range(100):
        ast = sg.gen_formula(rng, sg.GenCfg(vars=vars_, ops=ops, max_depth=rng.randint(2, 4), max_bound=rng.choice([4, 8])))
        if any(x[0] in sg.TUN + sg.TBIN for x in sg.walk(ast)) and sg.vars_of(ast):
            break
    signals = dict((v, world.gen_dense_signal(rng, rng.randint(2, 6), start_q=0, max_gap_q=4)[0]) for v in vars_)
    # members: (default unit du, unit used for suffixes or '' for none). time axis is expressed in du.
    base_unit = rng.choice(['s', 'ms'])          # a quarter tick is 0.25 base units
    members = []
    texts = []
    # only exact changes of unit: the time axis is scaled UP by a power of ten (default unit not coarser than the base
    # unit) and suffix units are not finer than the default unit, so that no window edge moves by a rounding error
    order = ['s', 'ms', 'us', 'ns']
    for j in range(rng.randint(3, 4)):
        du = rng.choice(order[order.index(base_unit):order.index(base_unit) + 3]) if j else base_unit
        sfx = rng.choice([''] + order[:order.index(du) + 1]) if j else ''
        if du == 's' and rng.random() < 0.5:
            du = None
        members.append({'du': du, 'sfx': sfx})
        texts.append(_dense_text(ast, base_unit, du, sfx, sg.Spelling(rng)))
    return {'kind': 'dense', 'mode': mode, 'vars': vars_, 'ast': ast, 'signals': signals, 'base_unit': base_unit, 'members': members,
            'texts': texts, 'nbatches': rng.randint(1, 3), 'prior_member': rng.randrange(4) if rng.random() < 0.3 else None}


def _dense_text(ast, base_unit, du, sfx, sp):
    def bp(lo, hi, sp_):
        def one(q):
            ns = Fraction(q, 4) * units.U[base_unit]
            u = sfx or (du or 's')
            return sg.fmt_num(ns / units.U[u]) + sfx
        return '[' + one(lo) + sp_.sep() + one(hi) + ']'
    return 'out = ' + sg.to_text(ast, sp, bp) + ';'


def gen_nonmultiple(rng):
    vars_ = ['a']
    P, pu = rng.choice([(1, 's'), (2, 's'), (500, 'ms'), (1, 'ms'), (3, 's')])
    du = rng.choice([None, 's', 'ms'])
    tick = P * units.U[pu]
    # a duration that is not a multiple of the tick, written in some unit
    frac = rng.choice([Fraction(1, 2), Fraction(3, 2), Fraction(1, 4), Fraction(5, 2), Fraction(1, 10), Fraction(7, 5)])
    bad_ns = frac * tick
    good_ns = rng.randint(0, 3) * tick
    which = rng.choice(['begin', 'end', 'both'])
    op = rng.choice(['once_b', 'historically_b', 'eventually_b', 'always_b', 'since_b', 'until_b'])
    mode = 'offline' if rng.random() < 0.4 else ('pastified' if op in ('eventually_b', 'always_b', 'until_b') else 'online')

    def lit(ns, u):
        return sg.fmt_num(Fraction(ns) / units.U[u])
    for _ in range(50):
        u = rng.choice(['', 's', 'ms', 'us', 'ns'])
        uu = u or (du or 's')
        try:
            if which == 'begin':
                lo, hi = bad_ns, (bad_ns // tick + 1 + rng.randint(0, 2)) * tick
            elif which == 'end':
                lo, hi = (bad_ns // tick) * tick * rng.randint(0, 1), bad_ns
            else:
                lo, hi = bad_ns, bad_ns + frac * tick
            assert 0 <= lo <= hi and (lo % tick != 0 or hi % tick != 0)
            txt = '[' + lit(lo, uu) + u + ',' + lit(hi, uu) + u + ']'
            if len(txt) > 40:
                continue
            break
        except ValueError:
            continue
    else:
        txt = '[0,0.5]'
        P, pu, du = 1, 's', None
    kw = {'once_b': 'once', 'historically_b': 'historically', 'eventually_b': 'eventually', 'always_b': 'always', 'since_b': 'since',
          'until_b': 'until'}[op]
    if op in ('since_b', 'until_b'):
        text = 'out = ((a) >= (0)) %s%s ((a) <= (1));' % (kw, txt)
    else:
        text = 'out = %s%s ((a) >= (0));' % (kw, txt)
    if mode == 'online' and op in ('eventually_b', 'always_b', 'until_b'):
        mode = 'pastified'
    return {'kind': 'nonmultiple', 'mode': mode, 'vars': vars_, 'text': text, 'period': P, 'pu': pu, 'du': du,
            'data': {'a': world.gen_values(rng, 4)}, 'n': 4}


def eqn(a, b):
    return M.num_eq(a, b) or (a != a and b != b)


def run(sc):
    if sc['kind'] == 'nonmultiple':
        return run_nonmultiple(sc)
    if sc['kind'] == 'reconfig':
        return run_reconfig(sc)
    if sc['kind'] == 'dense':
        return run_dense(sc)
    r = Result()
    ast, n, data, mode = sc['ast'], sc['n'], sc['data'], sc['mode']
    if not common.ref_defined([ast], False, data, n):
        r.discarded = True
        return r
    outs = []
    for nt, text in zip(sc['fleet'], sc['texts']):
        if text is None:
            text = 'out = ' + sg.to_text(ast, None, units.bounds_printer(nt, None)) + ';'
        desc = {'vars': common.var_decls(sc['vars']), 'spec': text}
        if nt.get('const_bounds'):
            # the same bounds, given as named constants: declared through the API or inside the text (const float B1 = 0.3)
            text, consts = _bounds_as_constants(text)
            if nt['const_bounds'] == 'text':
                desc['spec'] = '\n'.join(['const float %s = %s' % (k, v) for k, v in consts] + [text])
            else:
                desc['spec'] = text
                desc['consts'] = [[k, 'float', v] for k, v in consts]
            r.probes['bounds_as_declared_constants'] += 1
        desc.update(units.spec_config(nt))
        times = units.stamps(nt, n)
        try:
            if mode == 'offline':
                desc['cls'] = 'dt_off'
                o = [p[1] for p in M.dt_evaluate(M.build(desc), times, data)]
                r.api_calls += 3
            else:
                desc['cls'] = 'dt_on'
                desc['pastify'] = (mode == 'pastified')
                mon = M.build(desc)
                o = []
                for i in range(n):
                    o.append(M.dt_update(mon, times[i], [(v, data[v][i]) for v in sc['vars']]))
                    d = M.state_digest(mon)
                    if d:
                        r.states.add(d)
                r.api_calls += 2 + n
        except M.ApiCrash as e:
            r.crashes[e.exc_type] += 1
            r.violate('fleet-member-raised', notation=nt, spec=text, mode=mode, **e.describe())
            r.obs.append(['crash', e.exc_type])
            return r
        outs.append(o)
        r.sim_time += n
        r.faults['unit_notation:' + units.notation_class(nt).split('/')[0].split(':')[0]] += 1
    r.obs.append(outs[0] if outs else None)
    for j in range(1, len(outs)):
        r.evals += 1
        if len(outs[j]) != len(outs[0]) or not all(eqn(x, y) for x, y in zip(outs[j], outs[0])):
            r.violate('equivalent-notations-agree', mode=mode, spec_a=sc['texts'][0], notation_a=sc['fleet'][0], out_a=outs[0],
                      spec_b=sc['texts'][j], notation_b=sc['fleet'][j], out_b=outs[j], data=data)
            break
    texts = [t for t in sc['texts'] if t]
    joined = ' '.join(texts)
    import re
    if re.search(r'\[[0-9.]+(s|ms|us|ns)[,:][0-9.]+\]', joined) or re.search(r'\[[0-9.]+[,:][0-9.]+(s|ms|us|ns)\]', joined):
        r.probes['unit_on_one_end_only'] += 1
    if re.search(r'\[[0-9.]+(s|ms|us|ns)[,:][0-9.]+(?!\1\])(s|ms|us|ns)\]', joined):
        r.probes['mixed_units_in_one_interval'] += 1
    if any((nt.get('du') or 's') != 's' for nt in sc['fleet']):
        r.probes['default_unit_not_s'] += 1
    if any((nt.get('du') or 's') != nt['pu'] for nt in sc['fleet']):
        r.probes['period_unit_differs_from_default_unit'] += 1
    if mode == 'pastified':
        r.probes['pastified'] += 1
    if sc.get('same_numerals') and all(sc['texts']):
        r.probes['same_numerals_different_unit'] += 1
    if any(nt.get('omit_unit') and nt['pu'] == 's' and units.spec_config(nt).get('sampling') for nt in sc['fleet']):
        r.probes['period_unit_omitted'] += 1
    if any(nt.get('sampling_first') and nt.get('du') for nt in sc['fleet']):
        r.probes['sampling_period_set_before_unit'] += 1
    if outs and common.count_nontrivial(outs[0]) and len(set(texts)) > 1:
        r.nontrivial.add('%s|%s|%s' % (sg.shape(ast), mode, ','.join(sorted(set(units.notation_class(nt) for nt in sc['fleet'])))))
    return r


def run_dense(sc):
    r = Result()
    ast, signals, mode = sc['ast'], sc['signals'], sc['mode']
    if not common.ref_defined([ast], True, signals):
        r.discarded = True
        return r
    r.probes['dense_fleet'] += 1
    fns = []
    for mem, text in zip(sc['members'], sc['texts']):
        if text is None:
            text = _dense_text(ast, sc['base_unit'], mem['du'], mem['sfx'], None)
        du = mem['du'] or 's'
        scale = Fraction(units.U[sc['base_unit']], units.U[du])     # base time unit expressed in du
        sig = dict((v, [[float(Fraction(t) * scale), x] for t, x in signals[v]]) for v in sc['vars'])
        desc = {'vars': common.var_decls(sc['vars']), 'spec': text}
        if mem['du']:
            desc['unit'] = mem['du']
        try:
            if mode == 'offline':
                desc['cls'] = 'ct_off'
                if sc.get('prior_member') is not None and len(fns) == sc['prior_member'] % len(sc['members']) and len(sc['members']) > 1:
                    # this member's object was used under another member's default unit before
                    other = sc['members'][(len(fns) + 1) % len(sc['members'])]
                    oscale = Fraction(units.U[sc['base_unit']], units.U[other['du'] or 's'])
                    desc['prior'] = {'unit': other['du'], 'signals': dict((v, [[float(Fraction(t) * oscale), x] for t, x in signals[v]]) for v in sc['vars']),
                                     'order': sc['vars']}
                    r.faults['dense_object_reconfigured_after_use'] += 1
                out = M.ct_evaluate(M.build(desc), sig, sc['vars'])
            else:
                desc['cls'] = 'ct_on'
                mon = M.build(desc)
                out = []
                nb = sc['nbatches']
                for k in range(nb):
                    out += M.ct_update(mon, dict((v, sig[v][len(sig[v]) * k // nb:len(sig[v]) * (k + 1) // nb]) for v in sc['vars']),
                                       sc['vars'])
            r.api_calls += 3
        except M.ApiCrash as e:
            r.crashes[e.exc_type] += 1
            r.violate('fleet-member-raised', member=mem, spec=text, mode=mode, **e.describe())
            r.obs.append(['crash', e.exc_type])
            return r
        # back to base units
        fns.append(D.from_samples([[float(Fraction(p[0]) / scale) if p[0] not in (float('inf'), -float('inf')) else p[0], p[1]] for p in out]))
        r.faults['dense_unit_change'] += 1
    r.obs.append(fns[0] if fns else None)
    for j in range(1, len(fns)):
        r.evals += 1
        fa, fb = fns[0], fns[j]
        bad = None
        if bool(fa) != bool(fb):
            bad = 'empty'
        elif fa:
            if not M.num_eq(fa[0][0], fb[0][0]) or not M.num_eq(fa[-1][0], fb[-1][0]):
                bad = 'span'
            else:
                lo, hi = max(fa[0][0], fb[0][0]), min(fa[-1][0], fb[-1][0])
                bpa = set(p[0] for p in fa)
                bpb = set(p[0] for p in fb)
                for t in D.check_points([fa, fb], lo, hi):
                    # time-stamps were scaled to another unit and back: a break-point may differ in the last bits between
                    # two members. Compare at instants that are a break-point of both or at least 1e-6 away from any.
                    near = any(abs(t - q) < 1e-6 for q in bpa | bpb)
                    if near and not (t in bpa and t in bpb):
                        continue
                    if not eqn(D.at(fa, t), D.at(fb, t)):
                        bad = (t, D.at(fa, t), D.at(fb, t))
                        break
        if bad:
            r.violate('dense-unit-change-invariance', mode=mode, spec_a=sc['texts'][0], member_a=sc['members'][0], spec_b=sc['texts'][j],
                      member_b=sc['members'][j], signals=signals, out_a=fa, out_b=fb, why=repr(bad))
            break
    if fns and len(fns[0]) > 1:
        r.nontrivial.add('%s|dense-%s|%s' % (sg.shape(ast), mode, ','.join(sorted('%s/%s' % (m['du'], m['sfx']) for m in sc['members']))))
    return r


def run_nonmultiple(sc):
    r = Result()
    r.probes['non_multiple_bound'] += 1
    r.faults['non_multiple_bound'] += 1
    desc = {'vars': common.var_decls(sc['vars']), 'spec': sc['text'], 'sampling': [sc['period'], sc['pu'], 0.1]}
    if sc['du']:
        desc['unit'] = sc['du']
    mode = sc['mode']
    desc['cls'] = 'dt_off' if mode == 'offline' else 'dt_on'
    nt = {'period': sc['period'], 'pu': sc['pu'], 'du': sc['du']}
    times = units.stamps(nt, sc['n'])
    stage = 'construct'
    r.evals += 1
    try:
        spec = M.new_spec(desc)
        stage = 'parse'
        M.api('parse', spec.parse)
        M._late_config(spec)      # (run environment late_config: the configuration is issued after parse())
        if mode == 'pastified':
            stage = 'pastify'
            M.api('pastify', spec.pastify)
        stage = 'evaluate'
        if mode == 'offline':
            out = M.dt_evaluate(spec, times, sc['data'])
        else:
            out = M.dt_update(spec, times[0], [('a', sc['data']['a'][0])])
        r.violate('non-multiple-bound-yielded-a-value', spec=sc['text'], config=desc.get('sampling'), unit=sc['du'], mode=mode,
                  value=out)
    except M.ApiCrash as e:
        if not e.is_rtamt:
            r.crashes[e.exc_type] += 1
            r.violate('non-multiple-bound-wrong-exception', spec=sc['text'], config=desc.get('sampling'), unit=sc['du'], mode=mode,
                      stage=stage, **e.describe())
        else:
            r.probes['non_multiple_rejected_at_' + ('first_evaluation' if stage == 'evaluate' else 'parse_or_pastify')] += 1
    r.obs.append([sc['text'], stage])
    r.nontrivial.add('nonmultiple|%s|%s%s|%s' % (mode, sc['period'], sc['pu'], sc['text'].split('[')[1].split(']')[0]))
    return r


def shrinks(sc):
    if sc['kind'] == 'reconfig':
        if sc.get('use_first'):
            c = copy.deepcopy(sc)
            c['use_first'] = False
            yield c
        if sc['n'] > 1:
            c = copy.deepcopy(sc)
            c['n'] = sc['n'] - 1
            c['data'] = dict((v, sc['data'][v][:-1]) for v in sc['data'])
            yield c
        return
    if sc['kind'] == 'fleet':
        if len(sc['fleet']) > 2:
            for j in range(1, len(sc['fleet'])):
                c = copy.deepcopy(sc)
                del c['fleet'][j]
                del c['texts'][j]
                yield c
        if sc['n'] > 1 and sc['mode'] != 'pastified':
            c = copy.deepcopy(sc)
            c['n'] = sc['n'] - 1
            c['data'] = dict((v, sc['data'][v][:-1]) for v in sc['data'])
            yield c
        for a2 in sg.shrink_candidates(sc['ast']):
            if sg.horizon(a2) == float('inf'):
                continue
            c = copy.deepcopy(sc)
            c['ast'] = a2
            try:
                c['texts'] = ['out = ' + sg.to_text(a2, None, units.bounds_printer(dict(nt, style=_fixed_style(nt, t)), None)) + ';'
                              for nt, t in zip(sc['fleet'], sc['texts'])]
            except ValueError:
                continue
            if sc['mode'] == 'pastified':
                c['n'] = max(sc['n'], int(sg.horizon(a2)) + 1)
            yield c
    elif sc['kind'] == 'dense':
        if len(sc['members']) > 2:
            for j in range(1, len(sc['members'])):
                c = copy.deepcopy(sc)
                del c['members'][j]
                del c['texts'][j]
                yield c
        for a2 in sg.shrink_candidates(sc['ast']):
            if not sg.vars_of(a2):
                continue
            c = copy.deepcopy(sc)
            c['ast'] = a2
            c['texts'] = [None] * len(sc['members'])
            yield c


def _fixed_style(nt, text):
    """a deterministic style for re-printing a shrunk formula under the same kind of notation"""
    import re
    m = re.search(r'\[([0-9.]+)(s|ms|us|ns)?[,:]([0-9.]+)(s|ms|us|ns)?\]', text or '')
    if not m:
        return 'plain'
    u1, u2 = m.group(2), m.group(4)
    if u1 and u2:
        return ('both:' + u1) if u1 == u2 else ('mixed:%s:%s' % (u1, u2))
    if u1:
        return 'begin:' + u1
    if u2:
        return 'end:' + u2
    return 'plain'
