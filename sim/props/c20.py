"""C20 - explanations of a violation are a sufficient cause.

Run: a specification in the explainer's fragment (no since/until) is evaluated offline in discrete time on a
trace; explain() is called. When rho(0) < 0 the fault 'corrupt_unreported' overwrites every sample that is NOT
reported for its variable: uniformly at random from the value lattice, adversarially with the extremes -4/+4, and
with the values that would satisfy each predicate.
Oracle: on every corrupted trace the specification is still violated at time 0: neither RefDiscrete nor the real
offline monitor may report rho(0) > 0 (nothing is claimed at exactly 0). For rho(0) > 0 nothing is reported.
"""
import copy

import json

from .. import specgen as sg
from .. import monitors as M
from .. import world
from ..core import Result
from ..ref.discrete import eval_discrete, RefError
from . import common

ID = 'C20'
LEVEL = 'exploration'
RUNS = {'quick': 60000, 'thorough': 400000}
SIM_TIME_UNIT = 'samples'
RULE = ('seeded generation of (sorted specification without since/until, trace of 1..8 samples); for a violated trace the fault '
        'corrupt_unreported is injected 24 times (4 adversarial patterns, 2 per predicate threshold, the rest random lattice '
        'values); non-trivial = the trace is violated at 0, at least one sample is unreported and at least one reported; distinct = '
        'distinct (operator skeleton, trace length, reported-position pattern)')
ASSUMPTIONS = ['violated at 0 means rho(0) < 0 (the trigger of explain()); a corrupted trace counts as a counterexample only when '
               'rho(0) > 0 strictly, by RefDiscrete and by the real offline monitor',
               'reported positions of a variable = union of the inclusive index intervals in explainer.explanations[name], clipped to the trace',
               'predicates and Boolean structure are properly sorted (a Boolean reading exists)',
               'envelope rules exclude the regions of the open known findings']
REAL = common.REAL_ALL + ['rtamt STL explainer']
STUBS = common.STUBS_ALL
PROBES = ['violated_and_explained', 'satisfied_nothing_reported', 'variable_occurs_twice', 'window_beyond_trace', 'unreported_samples_exist',
          'everything_reported', 'log_longer_than_257_samples', 'with_subspecs', 'same_time_axis_object_for_both_logs']
ENVELOPE_RULES = []

EXPLAIN_OPS = set(sg.ALL_OPS) - {'since', 'until', 'unless', 'since_b', 'until_b', 'unless_b', 'ln', 'log'}


def envelope(sc):
    return ENVELOPE(sc) if ENVELOPE else []


ENVELOPE = None


def gen(rng, tier):
    for _ in range(300):
        sc = _gen(rng)
        if not envelope(sc):
            return sc
    raise RuntimeError('generator cannot leave the envelope')


def _gen(rng):
    nv = rng.randint(1, 3)
    vars_ = common.VARS[:nv]
    ops = set(EXPLAIN_OPS)
    if rng.random() < 0.5:
        ops -= set(sg.TERM_UN + sg.TERM_BIN)
    for _ in range(100):
        ast = sg.gen_formula(rng, sg.GenCfg(vars=vars_, ops=ops, max_depth=rng.randint(2, 4), max_bound=rng.choice([1, 2, 3]),
                                            strict_sorts=True, pred_var_const=rng.random() < 0.5, p_reuse=rng.choice([0.0, 0.15])))
        if sg.vars_of(ast) and ast[0] not in ('var', 'const') and ast[0] not in sg.TERM_UN + sg.TERM_BIN:
            break
    if rng.random() < 0.25:
        # satisfied universal operators over a disjunction: several disjoint intervals have to be explained
        other = sg.gen_formula(rng, sg.GenCfg(vars=vars_, ops=ops, max_depth=2, max_bound=2, strict_sorts=True))
        if other[0] not in ('var', 'const') and other[0] not in sg.TERM_UN + sg.TERM_BIN:
            univ = rng.choice(['always', 'historically', 'always_b', 'historically_b'])
            body = [rng.choice(['or', 'implies']), ast, other]
            ast = ['not', [univ, body] if univ in ('always', 'historically') else [univ, 0, rng.randint(1, 3), body]]
    directed = rng.random() < 0.2
    if directed:
        # directed skeletons in which several disjoint intervals have to be explained with universal polarity:
        #   not U1( U2(p1) or p2 )   with predicates that mostly hold,   E1( E2(p1) and p2 ) with predicates that mostly fail
        def bnd(op):
            return [op] if op in ('always', 'historically', 'eventually', 'once') else [op, rng.randint(0, 1), rng.randint(1, 3)]
        sat = rng.random() < 0.5
        c1, c2 = (rng.choice([-3.0, -2.0, -1.0]), rng.choice([-3.0, -2.0, -1.0])) if sat else (rng.choice([1.0, 2.0, 3.0]), rng.choice([1.0, 2.0, 3.0]))
        p1 = ['pred', '>=', ['var', rng.choice(vars_)], ['const', c1]]
        p2 = ['pred', '>=', ['var', rng.choice(vars_)], ['const', c2]]
        if sat:
            u1 = rng.choice(['always', 'historically', 'always_b', 'historically_b'])
            u2 = rng.choice(['always', 'historically', 'always_b', 'historically_b'])
            ast = ['not', bnd(u1) + [['or', bnd(u2) + [p1], p2]]]
        else:
            u1 = rng.choice(['eventually', 'once', 'eventually_b', 'once_b'])
            u2 = rng.choice(['eventually', 'once', 'eventually_b', 'once_b'])
            ast = bnd(u1) + [['and' if rng.random() < 0.5 else 'or', bnd(u2) + [p1], p2]]
    n = rng.randint(1, 8) if not directed else rng.randint(4, 8)
    if rng.random() < 0.03:
        n = rng.choice([258, 300, 400])      # a log longer than CPython's small-integer cache (positions compared by identity)
    data = world.gen_trace(rng, vars_, n)
    if n > 257 and rng.random() < 0.6:
        # an unbounded future operator over next/s_next: the interval handed down reaches the last sample of the long log
        inner = sg.gen_formula(rng, sg.GenCfg(vars=vars_, ops=ops, max_depth=rng.randint(1, 2), max_bound=2, strict_sorts=True,
                                              pred_var_const=True))
        if inner[0] not in ('var', 'const') and inner[0] not in sg.TERM_UN + sg.TERM_BIN:
            ast = [rng.choice(['eventually', 'always']), [rng.choice(['next', 's_next']), inner]]
            if rng.random() < 0.3:
                ast = ['not', ast]
    if n > 257:
        # a long quiet log: every sensor sits at one level with rare blips (otherwise no existential operator is ever violated)
        for v in vars_:
            base = rng.choice(sg.LATTICE)
            blips = rng.choice([0.0, 0.0, 0.005])
            data[v] = [(rng.choice(sg.LATTICE) if rng.random() < blips else base) for _ in range(n)]
    nc = 24
    rnd = [[rng.choice(sg.LATTICE) for _ in range(n * nv)] for _ in range(nc)]
    modular = None
    if rng.random() < 0.25 and sg.size(ast) >= 4:
        # the same requirement written with named sub-specifications (shared nodes in the explained tree)
        defs, top = sg.modularize(rng, ast, max_subs=2, prefer_stateful=rng.random() < 0.5)
        modular = {'key': json.dumps(ast), 'defs': defs, 'subs': ['%s = %s;' % (nm, sg.to_text(a)) for nm, a in defs],
                   'top': 'out = ' + sg.to_text(top) + ';'}
    if rng.random() < 0.08:
        # directed: one named sub-specification below a universal operator (explained at isolated samples, leaving gaps)
        # and below an existential window (explained over one contiguous interval), all violated
        n = rng.randint(5, 10)
        xv, yv = rng.choice(vars_), rng.choice(vars_)
        c1, c2 = rng.choice([-1.0, 0.0, 1.0]), rng.choice([-1.0, 0.0, 1.0])
        p_, q_ = ['pred', '>', ['var', xv], ['const', c1]], ['pred', '>', ['var', yv], ['const', c2]]
        if xv == yv:
            q_ = ['pred', '<', ['var', yv], ['const', c1 - 3.0]]
        uni = rng.choice(['always', 'historically', 'always_b'])
        exi = rng.choice(['eventually_b', 'eventually_b', 'once_b', 'eventually'])
        k = rng.randint(2, n - 1)

        def mk(pp):
            u = [uni, ['or', pp, q_]] if uni != 'always_b' else [uni, 0, n - 1, ['or', pp, q_]]
            e = [exi, pp] if exi == 'eventually' else [exi, 0, k, pp]
            return [rng.choice(['or', 'or', 'and']), u, e] if rng.random() < 0.7 else ['or', e, u]
        st = rng.getstate()
        ast = mk(p_)
        rng.setstate(st)
        top = mk(['ref', 'p1'])
        data = dict((v, [0.0] * n) for v in vars_)
        data[xv] = [c1 - rng.choice([0.5, 1.0, 2.0]) for _ in range(n)]                     # p1 false everywhere
        if yv != xv:
            blips = set(rng.sample(range(n), rng.randint(1, 3)))
            data[yv] = [(c2 - 1.0 if i in blips else c2 + rng.choice([0.5, 1.5])) for i in range(n)]   # q false at a few isolated samples
        rnd = [[rng.choice(sg.LATTICE) for _ in range(n * nv)] for _ in range(nc)]
        modular = {'key': json.dumps(ast), 'defs': [['p1', p_]], 'subs': ['p1 = %s;' % sg.to_text(p_)], 'top': 'out = ' + sg.to_text(top) + ';'}
    if rng.random() < 0.06:
        # directed: an edge operator over a composite operand below nested quantifiers, on signals that toggle (edges at time 0
        # and later, every interval essential)
        n = rng.randint(5, 9)
        xv, yv = rng.choice(vars_), rng.choice(vars_)
        c1, c2 = rng.choice([1.0, 2.0, 3.0]), rng.choice([1.0, 2.0, 3.0])
        p_, q_ = ['pred', '>=', ['var', xv], ['const', c1]], ['pred', '>=', ['var', yv], ['const', c2]]
        edge = [rng.choice(['rise', 'fall']), [rng.choice(['or', 'and']), p_, q_]]
        if rng.random() < 0.7:
            edge = ['not', edge]
        inner = rng.choice([['always_b', 0, 1, edge], ['historically_b', 0, 1, edge], edge])
        ast = rng.choice([['eventually_b', 0, n - 2, inner], ['eventually', inner], ['not', ['always_b', 0, n - 2, ['not', inner]]]])
        ph = rng.randint(0, 1)
        data = dict((v, [0.0] * n) for v in vars_)
        data[xv] = [(c1 + 1.0 if (i + ph) % 2 == 0 else c1 - 3.0) for i in range(n)]
        if yv != xv:
            data[yv] = [(c2 + 1.0 if (i + ph + rng.randint(0, 1)) % 2 == 0 else c2 - 3.0) for i in range(n)]
        rnd = [[rng.choice(sg.LATTICE) for _ in range(n * nv)] for _ in range(nc)]
        modular = None
    warm = None
    if rng.random() < 0.2:
        nw = n if (rng.random() < 0.5 and n <= 12) else rng.randint(1, 8)
        warm = {'n': nw, 'data': world.gen_trace(rng, vars_, nw)}
    other = None
    if rng.random() < 0.15:
        # a second requirement object of the same process evaluates and explains ANOTHER log after this object's explain() and
        # before this object's explanations are read
        no = rng.randint(1, 8)
        other = {'n': no, 'data': world.gen_trace(rng, vars_, no)}
    return {'vars': vars_, 'ast': ast, 'n': n, 'data': data, 'rnd': rnd, 'modular': modular, 'warm': warm, 'other': other}


def reported_positions(expl, vars_, n):
    rep = {}
    for v in vars_:
        pos = set()
        ivs = expl.get(v) or []
        for iv in ivs:
            try:
                b, e = int(iv[0]), int(iv[1])
            except Exception:
                continue
            for i in range(max(0, b), min(n - 1, e) + 1):
                pos.add(i)
        rep[v] = pos
    return rep


def corruptions(sc, rep):
    vars_, n, data = sc['vars'], sc['n'], sc['data']
    consts = sorted(set(x[1] for x in sg.walk(sc['ast']) if x[0] == 'const'))

    def make(fn):
        out = {}
        k = 0
        for v in vars_:
            row = []
            for i in range(n):
                row.append(data[v][i] if i in rep[v] else fn(v, i, k))
                k += 1
            out[v] = row
        return out
    res = [('all_max', make(lambda v, i, k: 4.0)), ('all_min', make(lambda v, i, k: -4.0)),
           ('alternate', make(lambda v, i, k: 4.0 if (i + k) % 2 else -4.0)), ('zero', make(lambda v, i, k: 0.0))]
    for c in consts[:6]:
        res.append(('above_%s' % c, make(lambda v, i, k, c=c: c + 1.0)))
        res.append(('below_%s' % c, make(lambda v, i, k, c=c: c - 1.0)))
    for j, row in enumerate(sc['rnd']):
        if len(res) >= 24:
            break
        res.append(('random_%d' % j, make(lambda v, i, k, row=row: row[k % len(row)])))
    return res


def run(sc):
    r = Result()
    ast, n, data = sc['ast'], sc['n'], sc['data']
    try:
        ref = eval_discrete(ast, data, n)
    except RefError:
        r.discarded = True
        return r
    text = 'out = ' + sg.to_text(ast) + ';'
    desc = {'cls': 'dt_off', 'vars': common.var_decls(sc['vars']), 'spec': text}
    m = sc.get('modular')
    # every assertion (named sub-specification or top) is a specification of its own for explain(): the ones violated at 0
    # are explained, the reported positions are the union
    targets = [['out', ast]]
    if m and m['key'] == json.dumps(ast):
        desc['subspecs'] = m['subs']
        desc['spec'] = m['top']
        text = ' '.join(m['subs'] + [m['top']])
        r.probes['with_subspecs'] += 1
        targets = [[nm, sg.inline(m['defs'], a)] for nm, a in m['defs']] + targets
    try:
        refs = dict((nm, eval_discrete(a, data, n)) for nm, a in targets)
    except RefError:
        r.discarded = True
        return r
    violated = [[nm, a] for nm, a in targets if refs[nm][0] < 0]
    axis = list(range(n))
    try:
        spec = M.build(desc)
        if sc.get('warm'):
            # the object has a history: another log was evaluated and explained before this one
            w = sc['warm']
            try:
                eval_discrete(ast, w['data'], w['n'])
                if w['n'] == n:
                    axis = M.SharedAxis(axis)          # both logs use one time axis: the caller passes the same list object
                    r.probes['same_time_axis_object_for_both_logs'] += 1
                M.dt_evaluate(spec, axis if w['n'] == n else list(range(w['n'])), w['data'])
                M.api('explain', spec.explain)
                r.faults['object_explained_another_log_before'] += 1
            except RefError:
                pass
        out = M.dt_evaluate(spec, axis, data)
        r.api_calls += 3
        rho0 = out[0][1]
        M.api('explain', spec.explain)
        r.api_calls += 1
        if sc.get('other'):
            o = sc['other']
            try:
                eval_discrete(ast, o['data'], o['n'])
                spec_b = M.build(desc)
                M.dt_evaluate(spec_b, list(range(o['n'])), o['data'])
                M.api('explain', spec_b.explain)
                r.faults['another_object_explained_in_between'] += 1
            except RefError:
                pass
        expl = dict(spec.explainer.explanations)
    except M.ApiCrash as e:
        r.crashes[e.exc_type] += 1
        r.violate('explain-raised', spec=text, data=data, **e.describe())
        r.obs.append(['crash', e.exc_type])
        return r
    names = dict((k if isinstance(k, str) else repr(k), v) for k, v in expl.items())
    r.obs.append([rho0, sorted((k, v) for k, v in names.items() if k in sc['vars'])])
    r.sim_time += n
    rep = reported_positions(names, sc['vars'], n)
    r.evals += 1
    if (rho0 < 0) != (ref[0] < 0) and not M.num_eq(rho0, ref[0]):
        r.violate('robustness-at-0-equals-reference', spec=text, data=data, why='robustness at 0 differs from the reference', got=rho0, want=ref[0])
        return r
    if not violated:
        if all(refs[nm][0] > 0 for nm, _ in targets):
            r.probes['satisfied_nothing_reported'] += 1
            if any(rep[v] for v in sc['vars']) or expl:
                r.violate('nothing-reported-when-satisfied', spec=text, data=data, rho0=rho0, explanations=names)
        return r
    r.probes['violated_and_explained'] += 1
    if n > 257:
        r.probes['log_longer_than_257_samples'] += 1
    unrep = sum(1 for v in sg.vars_of(ast) for i in range(n) if i not in rep[v])
    if unrep:
        r.probes['unreported_samples_exist'] += 1
    else:
        r.probes['everything_reported'] += 1
    vs = [x[1] for x in sg.walk(ast) if x[0] == 'var']
    if len(vs) != len(set(vs)):
        r.probes['variable_occurs_twice'] += 1
    if any(x[0] in sg.TUN and x[2] >= n for x in sg.walk(ast)):
        r.probes['window_beyond_trace'] += 1
    for name, cd in corruptions(sc, rep):
        r.faults['corrupt_unreported'] += 1
        for tname, tast in violated:
            try:
                ref2 = eval_discrete(tast, cd, n)
            except RefError:
                continue
            r.evals += 1
            if ref2[0] > 0:
                try:
                    d2 = desc if tname == 'out' else dict(desc, subspecs=[], spec='out = ' + sg.to_text(tast) + ';')
                    out2 = M.dt_evaluate(M.build(d2), list(range(n)), cd)
                    real2 = out2[0][1]
                except M.ApiCrash:
                    real2 = None
                if real2 is None or real2 > 0:
                    r.violate('explanation-is-sufficient-cause', spec=text, assertion=tname, data=data, rho0=refs[tname][0],
                              explanations=dict((v, sorted(rep[v])) for v in sc['vars']), raw=dict((v, names.get(v)) for v in sc['vars']),
                              corruption=name, corrupted=cd, rho0_on_corrupted=ref2[0])
                    return r
    if unrep and any(rep[v] for v in sc['vars']):
        r.nontrivial.add('%s|n=%d|%s' % (sg.shape(ast), n, ';'.join(','.join(map(str, sorted(rep[v]))) for v in sc['vars'])))
    return r


def shrinks(sc):
    if sc.get('warm'):
        c = dict(sc)
        c['warm'] = None
        yield c
    if sc.get('other'):
        c = dict(sc)
        c['other'] = None
        yield c
    for c in common.shrink_discrete(sc):
        a = c['ast']
        if not sg.vars_of(a) or a[0] in ('var', 'const') or a[0] in sg.TERM_UN + sg.TERM_BIN:
            continue
        ok = True
        for x in sg.walk(a):
            if x[0] in sg.FORM_UN + sg.FORM_BIN + sg.TUN + sg.TBIN:
                for ch in sg.children(x):
                    if ch[0] in ('var', 'const') or ch[0] in sg.TERM_UN + sg.TERM_BIN:
                        ok = False
            if x[0] == 'pred' or x[0] in sg.TERM_UN + sg.TERM_BIN:
                for ch in sg.children(x):
                    if ch[0] == 'pred' or ch[0] in sg.FORM_UN + sg.FORM_BIN + sg.TUN + sg.TBIN:
                        ok = False
        if not ok:
            continue
        if c['n'] != sc['n']:
            c['rnd'] = [row[:max(1, c['n'] * len(c['vars']))] for row in sc['rnd']]
        yield c
