"""C18 - temporal dualities and expansion laws hold in every monitor.

Run: operands p, q, bounds and a trace are generated; the two sides of a law are hosted as two real monitors of
the SAME kind and fed the same simulated stream under the same schedule (discrete offline / online step by step /
online pastified; dense offline / online under chunking). The online pairs are two different state machines that
have to stay in lock-step along every history.
Laws: not F[a,b] p = G[a,b] not p;  not O[a,b] p = H[a,b] not p (also unbounded);  p -> q = (not p) or q;
F[a,b] F[c,d] p = F[a+c,b+d] p (same for once);  discrete time: p S q = q or (p and s_prev(p S q)),
p U q = q or (p and s_next(p U q)).
Oracle: identical signals (step functions in dense time).
"""
import copy

from .. import specgen as sg
from .. import monitors as M
from .. import world
from .. import units
from ..core import Result
from ..ref import dense as D
from . import common

ID = 'C18'
LEVEL = 'exploration'
RUNS = {'quick': 60000, 'thorough': 400000}
SIM_TIME_UNIT = 'samples / dense time units'
RULE = ('seeded generation of (law, operand formulas p and q, bounds, monitor kind that supports both sides, data, schedule); every '
        'update is a checked history for the online kinds; non-trivial = the common output is finite somewhere and not constant; '
        'distinct = distinct (law, kind, operand skeletons, bounds)')
ASSUMPTIONS = ['both sides are real monitors of the same kind; no reference model', 'dense-time outputs compared as step functions on '
               'the span both cover', 'scenarios with undefined reference value (NaN/overflow) are discarded',
               'pastified pairs have equal horizons by construction']
REAL = common.REAL_ALL
STUBS = common.STUBS_ALL
INTERLEAVING_MEASURE = 'distinct (monitor kind, mode, number of updates or batches) tuples'
PROBES = ['law_not_eventually', 'law_not_once', 'law_implies', 'law_eventually_eventually', 'law_once_once', 'law_since_expansion',
          'law_until_expansion', 'unbounded_version', 'online', 'pastified', 'dense_time', 'stateful_operand', 'bounds_with_explicit_units', 'same_numerals_different_unit', 'time_axis_scaled_to_sub_microsecond_ticks']

LAWS = ['not_eventually', 'not_once', 'implies', 'eventually_eventually', 'once_once', 'since_expansion', 'until_expansion']


def sides(law, p, q, b1, b2, unbounded):
    if law == 'not_eventually':
        if unbounded:
            return ['not', ['eventually', p]], ['always', ['not', p]]
        return ['not', ['eventually_b', b1[0], b1[1], p]], ['always_b', b1[0], b1[1], ['not', p]]
    if law == 'not_once':
        if unbounded:
            return ['not', ['once', p]], ['historically', ['not', p]]
        return ['not', ['once_b', b1[0], b1[1], p]], ['historically_b', b1[0], b1[1], ['not', p]]
    if law == 'implies':
        return ['implies', p, q], ['or', ['not', p], q]
    if law == 'eventually_eventually':
        return (['eventually_b', b1[0], b1[1], ['eventually_b', b2[0], b2[1], p]],
                ['eventually_b', b1[0] + b2[0], b1[1] + b2[1], p])
    if law == 'once_once':
        return (['once_b', b1[0], b1[1], ['once_b', b2[0], b2[1], p]],
                ['once_b', b1[0] + b2[0], b1[1] + b2[1], p])
    if law == 'since_expansion':
        return ['since', p, q], ['or', q, ['and', p, ['s_prev', ['since', p, q]]]]
    if law == 'until_expansion':
        return ['until', p, q], ['or', q, ['and', p, ['s_next', ['until', p, q]]]]
    raise KeyError(law)


def gen(rng, tier):
    kind = rng.choice(['dt_off', 'dt_off', 'dt_on', 'ct_off', 'ct_on'])
    dense = kind.startswith('ct')
    online = kind.endswith('_on')
    laws = ['not_once', 'implies', 'once_once']
    if not dense:
        laws.append('since_expansion')
    if not online or True:
        laws += ['not_eventually', 'eventually_eventually']      # online: through pastify
    if kind == 'dt_off':
        laws.append('until_expansion')
    law = rng.choice(laws)
    unbounded = law in ('not_eventually', 'not_once') and rng.random() < 0.3
    if unbounded and law == 'not_eventually' and online:
        unbounded = False
    nv = rng.randint(1, 2)
    vars_ = common.VARS[:nv]
    if online:
        ops = common.DENSE_PAST_OPS if dense else common.PAST_OPS
        if rng.random() < 0.3:
            # operands with bounded-future operators: both sides are pastified (and delayed sub-formulas sit under the law's operators)
            ops = (set(ops) | {'eventually_b', 'always_b'} | (set() if dense else {'next'})) - {'log'}
    else:
        ops = common.DENSE_OFFLINE_OPS if dense else set(sg.ALL_OPS)
    cfg = sg.GenCfg(vars=vars_, ops=ops, max_depth=rng.randint(1, 3), max_bound=rng.choice([2, 4]), p_loose=(rng.choice([0.3, 0.6, 0.9]) if dense else rng.choice([0.03, 0.3, 0.6])))
    for _ in range(50):
        p = sg.gen_formula(rng, cfg)
        q = sg.gen_formula(rng, cfg)
        if sg.vars_of(p) and sg.vars_of(q):
            break
    mb = 4 if not dense else 8
    medium = (not dense) and rng.random() < 0.12
    if medium:
        mb = rng.choice([9, 12, 16])      # windows wider than 8 samples, quantised signals (see below)

    def bnd():
        lo = rng.randint(0, mb)
        return [lo, rng.randint(lo, mb)]
    b1, b2 = bnd(), bnd()
    same_numerals = None
    if law in ('eventually_eventually', 'once_once') and not dense and not (online and law == 'eventually_eventually') and rng.random() < 0.2:
        # the two nested intervals are written with the same numerals in different units: [a:b s] and [a:b ms], period 1 ms
        fine, coarse = rng.choice([('ms', 's'), ('us', 'ms'), ('ns', 'us')])
        lo = rng.randint(0, 1)
        b2 = [lo, lo + rng.randint(0, 2)]
        b1 = [1000 * b2[0], 1000 * b2[1]]
        if rng.random() < 0.5:
            b1, b2 = b2, b1
        same_numerals = {'fine': fine, 'coarse': coarse}
    lhs, rhs = sides(law, p, q, b1, b2, unbounded)
    costly = same_numerals is not None and any(x[0] in sg.FUTURE_OPS for x in sg.walk(lhs))
    # (costly: 1000-sample windows AND a pastified operand mean > 3000 updates of warm-up, 14-18 s of CPU for one run - too close
    #  to the run limit; the same-numerals laws are only run over past-time operands online)
    if online and (costly or common.f08_blind(lhs) or common.f08_blind(rhs) or sg.horizon(lhs) != sg.horizon(rhs) or sg.horizon(lhs) > 12):
        # (unbounded memory above a delayed operand: open finding F08) - fall back to past-time operands
        cfg.ops = set(common.DENSE_PAST_OPS if dense else common.PAST_OPS)
        for _ in range(50):
            p = sg.gen_formula(rng, cfg)
            q = sg.gen_formula(rng, cfg)
            if sg.vars_of(p) and sg.vars_of(q):
                break
        lhs, rhs = sides(law, p, q, b1, b2, unbounded)
    pastify = online and any(x[0] in sg.FUTURE_OPS for x in list(sg.walk(lhs)) + list(sg.walk(rhs)))
    sc = {'kind': kind, 'law': law, 'unbounded': unbounded, 'vars': vars_, 'p': p, 'q': q, 'b1': b1, 'b2': b2, 'pastify': pastify}
    if dense:
        rp = rng.choice([0.15, 0.4])       # plateaus of equal consecutive samples
        sc['signals'] = dict((v, world.gen_dense_signal(rng, rng.randint(1, 7), start_q=0, max_gap_q=4, resample_p=rp,
                                                       style=rng.choice([None, 'ints']))[0]) for v in vars_)
        sc['nbatches'] = rng.randint(1, 4)
        if rng.random() < 0.1:
            # a MHz logger: the whole time axis (stamps and bounds) is scaled by 2**-20, exactly - one tick is 2**-22 time units
            sc['tscale'] = -20
            k = 2.0 ** -20
            sc['signals'] = dict((v, [[t * k, x] for t, x in sc['signals'][v]]) for v in sc['signals'])
    else:
        sc['n'] = rng.randint(1, 10) + (int(sg.horizon(lhs)) + int(max(common.warmup_extra(lhs), common.warmup_extra(rhs))) if pastify else 0)
        if medium:
            sc['n'] += rng.randint(mb, 2 * mb)
        sc['data'] = world.gen_trace(rng, vars_, sc['n'], style=('plateau' if medium and rng.random() < 0.6 else None))
        if same_numerals:
            sc['same_numerals'] = same_numerals
            sc['notation'] = {'period': 1, 'pu': same_numerals['fine'], 'du': same_numerals['fine'], 'tol': 0.1, 'style': 'plain'}
        elif rng.random() < 0.25:
            # the bounds of both sides are written with explicit units, each bound in a style of its own
            nt = units.gen_notation(rng, p_plain=0.3)
            nt['style'] = 'random'
            sc['notation'] = nt
            sc['style_seed'] = rng.randrange(1 << 30)
            try:
                texts_of(sc, lhs, rhs)
            except ValueError:
                sc['notation'] = None
        if not sc.get('notation'):
            common.add_clock(rng, sc)
    return sc


def texts_of(sc, lhs, rhs):
    dense = sc['kind'].startswith('ct')
    if dense and sc.get('tscale'):
        from fractions import Fraction
        k = Fraction(1, 2 ** (-sc['tscale']))

        def bp(lo, hi, sp):
            return '[' + sg.fmt_num(Fraction(lo, 4) * k) + sp.sep() + sg.fmt_num(Fraction(hi, 4) * k) + ']'
        return 'out = ' + sg.to_text(lhs, None, bp) + ';', 'out = ' + sg.to_text(rhs, None, bp) + ';'
    if dense:
        return common.dense_text(lhs), common.dense_text(rhs)
    nt = sc.get('notation')
    sn = sc.get('same_numerals')
    if sn and nt and sc['law'] in ('eventually_eventually', 'once_once'):
        b1, b2 = sc['b1'], sc['b2']
        big, small = (b1, b2) if b1[1] >= b2[1] else (b2, b1)
        if big == [1000 * small[0], 1000 * small[1]] and big != small:
            kw = 'eventually' if sc['law'] == 'eventually_eventually' else 'once'
            ptxt = sg.to_text(sc['p'])
            w = {True: '[%d:%d%s]' % (small[0], small[1], sn['coarse']), False: '[%d:%d%s]' % (small[0], small[1], sn['fine'])}
            lt = 'out = %s%s (%s%s (%s));' % (kw, w[b1 is big or b1 == big], kw, w[not (b1 is big or b1 == big)], ptxt)
            rt = 'out = %s[%d:%d%s] (%s);' % (kw, b1[0] + b2[0], b1[1] + b2[1], sn['fine'], ptxt)
            return lt, rt
    if nt:
        import random
        srng = random.Random(sc.get('style_seed', 0))
        bp = units.bounds_printer(nt, srng)
        return 'out = ' + sg.to_text(lhs, None, bp) + ';', 'out = ' + sg.to_text(rhs, None, bp) + ';'
    return 'out = ' + sg.to_text(lhs) + ';', 'out = ' + sg.to_text(rhs) + ';'


def eqn(a, b):
    return M.num_eq(a, b) or (a != a and b != b)


def feed(sc, ast, r, text):
    dense = sc['kind'].startswith('ct')
    desc = {'cls': sc['kind'], 'vars': common.var_decls(sc['vars']), 'spec': text, 'pastify': sc['pastify']}
    nt = sc.get('notation') if not dense else None
    if nt:
        desc.update(units.spec_config(nt))
        stamps = units.stamps(nt, sc['n'])
    elif not dense:
        stamps = common.stamps_of(sc)
    mon = M.build(desc)
    r.api_calls += 2
    if sc['kind'] == 'dt_off':
        return [p[1] for p in M.dt_evaluate(mon, stamps, sc['data'])], text
    if sc['kind'] == 'ct_off':
        return M.ct_evaluate(mon, sc['signals'], sc['vars']), text
    if sc['kind'] == 'dt_on':
        out = []
        for i in range(sc['n']):
            out.append(M.dt_update(mon, stamps[i], [(v, sc['data'][v][i]) for v in sc['vars']]))
            d = M.state_digest(mon)
            if d:
                r.states.add(d)
        return out, text
    sig, nb = sc['signals'], sc['nbatches']
    out = []
    for k in range(nb):
        out += M.ct_update(mon, dict((v, sig[v][len(sig[v]) * k // nb:len(sig[v]) * (k + 1) // nb]) for v in sc['vars']), sc['vars'])
        d = M.state_digest(mon)
        if d:
            r.states.add(d)
    return out, text


def run(sc):
    r = Result()
    r.faults.update(sc.get('fired') or {})
    r.interleavings.add('%s|%s|%s' % (sc.get('kind'), sc.get('mode', ''), sc.get('nbatches') or sc.get('n')))
    if sc.get('nbatches', 1) > 1:
        r.faults['batch_split'] += sc['nbatches'] - 1
    dense = sc['kind'].startswith('ct')
    lhs, rhs = sides(sc['law'], sc['p'], sc['q'], sc['b1'], sc['b2'], sc['unbounded'])
    data = sc['signals'] if dense else sc['data']
    if not common.ref_defined([lhs, rhs], dense, data, sc.get('n')):
        r.discarded = True
        return r
    try:
        ta, tb = texts_of(sc, lhs, rhs)
    except ValueError:
        sc = dict(sc, notation=None)           # (a shrunk bound is not printable in this notation any more)
        ta, tb = texts_of(sc, lhs, rhs)
    if sc.get('same_numerals') and 's]' in ta:
        r.probes['same_numerals_different_unit'] += 1
    if sc.get('notation') and not dense:
        r.probes['bounds_with_explicit_units'] += 1
        r.faults['unit_notation_non_default'] += 1
    try:
        a, ta = feed(sc, lhs, r, ta)
        b, tb = feed(sc, rhs, r, tb)
    except M.ApiCrash as e:
        r.crashes[e.exc_type] += 1
        r.violate('api-raised', law=sc['law'], kind=sc['kind'], lhs=sg.to_text(lhs), rhs=sg.to_text(rhs), **e.describe())
        r.obs.append(['crash', e.exc_type])
        return r
    r.obs.append(a)
    r.evals += 1
    bad = None
    nontriv = False
    if dense:
        fa, fb = D.from_samples(a), D.from_samples(b)
        used = sorted(set(sg.vars_of(lhs)))
        s0 = max(data[v][0][0] for v in used)
        e0 = min(data[v][-1][0] for v in used)
        if bool(fa) != bool(fb):
            bad = 'one side is empty'
        elif fa:
            if sc['kind'] == 'ct_off':
                lo, hi = s0, e0
                if fa[0][0] != fb[0][0]:
                    bad = 'start'
            else:
                lo, hi = max(fa[0][0], fb[0][0]), min(fa[-1][0], fb[-1][0])
                if sc['pastify']:
                    lo = max(lo, (sg.horizon(lhs) + max(common.warmup_extra(lhs), common.warmup_extra(rhs))) * common.DENSE_TICK *
                             (2.0 ** sc['tscale'] if sc.get('tscale') else 1.0))
                if not D.nondecreasing(a) or not D.nondecreasing(b):
                    bad = 'decreasing stamps'
            if not bad and lo <= hi:
                for t in D.check_points([fa, fb], lo, hi):
                    if t < fa[0][0] or t < fb[0][0]:
                        continue
                    if not eqn(D.at(fa, t), D.at(fb, t)):
                        bad = (t, D.at(fa, t), D.at(fb, t))
                        break
            nontriv = len(fa) > 1
            r.sim_time += max(0.0, hi - lo)
    else:
        # warm-up outputs of a pastified monitor are not specified (C03); inside the F08 region until the warm-up left every memory
        h0 = int(sg.horizon(lhs)) + int(max(common.warmup_extra(lhs), common.warmup_extra(rhs))) if sc['pastify'] else 0
        if len(a) != len(b) or not all(eqn(x, y) for x, y in list(zip(a, b))[h0:]):
            bad = 'values'
        nontriv = common.count_nontrivial(a)
        r.sim_time += sc['n']
    if bad:
        r.violate('law-holds', law=sc['law'], kind=sc['kind'], pastify=sc['pastify'], lhs=ta, rhs=tb, data=data, out_lhs=a, out_rhs=b,
                  why=repr(bad))
    r.probes['law_' + sc['law']] += 1
    if sc['unbounded']:
        r.probes['unbounded_version'] += 1
    if sc['kind'].endswith('_on'):
        r.probes['online'] += 1
    if sc['pastify']:
        r.probes['pastified'] += 1
    if dense:
        r.probes['dense_time'] += 1
    if sc.get('tscale'):
        r.probes['time_axis_scaled_to_sub_microsecond_ticks'] += 1
    if any(x[0] in sg.TEMPORAL for x in sg.walk(sc['p'])) or any(x[0] in sg.TEMPORAL for x in sg.walk(sc['q'])):
        r.probes['stateful_operand'] += 1
    if nontriv:
        r.nontrivial.add('%s|%s|%s|%s|%s%s' % (sc['law'], sc['kind'], sg.shape(sc['p']), sg.shape(sc['q']), sc['b1'], sc['b2']))
    return r


def shrinks(sc):
    dense = sc['kind'].startswith('ct')
    for key_ in ('p', 'q'):
        for a2 in [['var', sc['vars'][0]]] + list(sg.shrink_candidates(sc[key_])):
            if not sg.vars_of(a2) or a2 == sc[key_]:
                continue
            c = copy.deepcopy(sc)
            c[key_] = a2
            yield c
    for bk in ('b1', 'b2'):
        lo, hi = sc[bk]
        for nb in ([0, hi], [lo, lo], [0, 0], [0, 1], [max(0, lo - 1), hi], [lo, max(lo, hi - 1)]):
            if nb != sc[bk] and nb[0] <= nb[1]:
                c = copy.deepcopy(sc)
                c[bk] = nb
                yield c
    if dense:
        if sc.get('nbatches', 1) > 1:
            c = copy.deepcopy(sc)
            c['nbatches'] = sc['nbatches'] - 1
            yield c
        for v in sorted(sc['signals']):
            n = len(sc['signals'][v])
            if n > 1:
                c = copy.deepcopy(sc)
                c['signals'][v] = sc['signals'][v][:-1]
                yield c
    else:
        if sc['n'] > 1:
            c = copy.deepcopy(sc)
            c['n'] = sc['n'] - 1
            c['data'] = dict((v, sc['data'][v][:-1]) for v in sc['data'])
            yield c
