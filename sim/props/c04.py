"""C04 - dense-time offline robustness equals the dense-time STL semantics.

Run: every variable is sampled by its own sensor (own clock, instants k/4, redundant re-samples); the relative
order / coincidence of the instants of different sensors realises the Allen relations that the merge code
enumerates. The recorded signals are evaluated by the real dense-time offline monitor.
Oracle: time-stamps non-decreasing; first time-stamp = start of the common input domain; step function equals
RefDense at every break-point and mid-point of the common domain; inserting redundant samples does not change
the denoted result.
"""
import copy

from .. import specgen as sg
from .. import monitors as M
from .. import world
from ..core import Result
from ..ref import dense as D
from ..ref.discrete import RefError
from . import common

ID = 'C04'
LEVEL = 'exploration'
RUNS = {'quick': 60000, 'thorough': 400000}
SIM_TIME_UNIT = 'dense time units'
RULE = ('seeded generation of (dense-time specification, 1-3 independently sampled piecewise-constant signals of 1..7 '
        'samples, redundant re-samples); non-trivial = reference result has >= 2 segments with a finite value; distinct = '
        'distinct (operator skeleton, Allen-relation profile of the sensors)')
ASSUMPTIONS = ['RefDense (sim/ref/dense.py): last value held, closed windows, non-strict since/until, bounded past '
               'operators -inf/+inf while the window begins before the operand domain',
               'common input domain = [latest first time-stamp, earliest last time-stamp] of the variables in the formula',
               'instants and bounds are multiples of 1/4 (exact in binary floating point)',
               'NaN/domain-error scenarios are discarded', 'envelope rules exclude the regions of the open known findings']
REAL = common.REAL_ALL
STUBS = common.STUBS_ALL
PROBES = ['sensors_start_at_different_instants', 'window_longer_than_signal', 'result_starts_with_inf', 'coincident_instants',
          'one_sample_signal', 'resample', 'bounds_are_declared_constants_below_1e-6']
INTERLEAVING_MEASURE = 'distinct sequences of Allen relations met when the sensors\' sample intervals are merged'
ENVELOPE_RULES = ['bounded-op-nonzero-start: a bounded temporal operator whose operand domain does not start at time 0 '
                  '(known finding F14a; the suite pins the anchoring at 0)']


def envelope(sc):
    out = []
    if common.bounded_op_nonzero_start(sc['ast'], sc['signals']):
        out.append('bounded-op-nonzero-start')
    return out


def gen(rng, tier):
    for _ in range(500):
        sc = _gen(rng, tier == 'thorough')
        if sc is not None and not envelope(sc):
            return sc
    raise RuntimeError('generator cannot leave the envelope')


def _gen(rng, big=False):
    nv = rng.randint(1, 4 if big else 3)
    vars_ = common.VARS[:nv]
    cfg = sg.GenCfg(vars=vars_, ops=common.DENSE_OFFLINE_OPS, max_depth=rng.randint(2, 5 if big else 4), max_bound=rng.choice([4, 8, 12] + ([16] if big else [])),
                    p_reuse=rng.choice([0.0, 0.15]), allow_const_only=rng.random() < 0.25, p_loose=rng.choice([0.08, 0.3]))
    long_log = rng.random() < 0.01
    if long_log:
        cfg.max_depth = min(cfg.max_depth, 2)
        cfg.ops = set(cfg.ops) - {'exp'}
    ast = sg.gen_formula(rng, cfg)
    used = sg.vars_of(ast)
    if not used:
        return None
    zero = rng.random() < 0.6
    signals = {}
    fired = {}
    for v in vars_:
        s, f = world.gen_dense_signal(rng, (rng.choice([64, 100, 200]) if long_log else rng.choice([1, 2, 3, 4, 5, 6, 7] + ([10, 14] if big else []))), start_q=0 if zero else rng.randint(0, 6),
                                      max_gap_q=rng.choice([2, 4, 8]), resample_p=rng.choice([0.15, 0.4]),
                                      style=rng.choice([None, None, 'ints']))
        signals[v] = s
        for k in f:
            fired[k] = fired.get(k, 0) + f[k]
    s0 = max(signals[v][0][0] for v in used)
    e0 = min(signals[v][-1][0] for v in used)
    if e0 < s0:
        return None
    # redundant re-sampling: insert samples that repeat the current value
    sig2 = {}
    for v in vars_:
        out = []
        for i, (t, x) in enumerate(signals[v]):
            out.append([t, x])
            nxt = signals[v][i + 1][0] if i + 1 < len(signals[v]) else t + 2.0
            if nxt - t >= 0.5 and rng.random() < 0.4:
                out.append([t + 0.25 * rng.randint(1, int((nxt - t) / 0.25) - 1), x])
                fired['resample_inserted'] = fired.get('resample_inserted', 0) + 1
        sig2[v] = out
    text = common.dense_text(ast, sg.Spelling(rng))
    subspecs = None
    if sg.size(ast) >= 4 and rng.random() < 0.2:
        # the same requirement written with named sub-specifications (several assertions in one text, or add_sub_spec)
        defs, top = sg.modularize(rng, ast, max_subs=3, prefer_stateful=rng.random() < 0.5)
        if rng.random() < 0.3:
            defs, top = sg.add_alias(rng, defs, top, 'q1')       # a bare number or variable with a name of its own (also used as -(q1))
        sp = sg.Spelling(rng)
        subs = ['%s = %s;' % (nm, sg.to_text(a, sp, common.dense_bounds)) for nm, a in defs]
        text = 'out = ' + sg.to_text(top, sp, common.dense_bounds) + ';'
        if rng.random() < 0.5:
            text = '\n'.join(subs + [text])
        else:
            subspecs = subs
    again = None
    if rng.random() < 0.3:
        # a second requirement monitored in the same process by another object, between two uses of the first
        again = sg.gen_formula(rng, sg.GenCfg(vars=vars_, ops=common.DENSE_OFFLINE_OPS, max_depth=rng.randint(1, 3), max_bound=4))
    order = list(vars_)
    rng.shuffle(order)
    return {'vars': vars_, 'ast': ast, 'text': text, 'signals': signals, 'signals2': sig2, 'fired': fired,
            'cls': 'ct_off' if rng.random() < 0.7 else 'ct', 'order': order, 'again': again, 'subspecs': subspecs,
            'fine_consts': rng.random() < 0.08 and any(x[0] in sg.TUN + sg.TBIN for x in sg.walk(ast)),
            'poisoned_first': rng.choice(sg.vars_of(ast)) if rng.random() < 0.12 else None}


def _check(r, sc, text, signals, ref, s0, e0, tag, keep=None):
    desc = {'cls': sc.get('cls', 'ct_off'), 'vars': common.var_decls(sc['vars']), 'spec': text}
    modular = tag != 'second-requirement' and sc.get('text') and text == sc.get('text') and (sc.get('subspecs') or '\n' in text)
    if modular:
        desc['subspecs'] = sc.get('subspecs') or []
        r.probes['modular_specification'] += 1
    if sc.get('fine_consts') and tag != 'second-requirement' and not modular:
        # the time axis is in microseconds, the bounds are declared constants given in seconds (0.00000025 s = one tick)
        desc['spec'], desc['consts'] = common.fine_const_bounds(sc['ast'])
        desc['unit'] = 'us'
        text = desc['spec']
        r.probes['bounds_are_declared_constants_below_1e-6'] += 1
    if sc.get('poisoned_first') and tag == 'recorded':
        # the object first evaluated a damaged log (a sensor delivered None from some instant on): evaluate() raised half-way
        pv = sc['poisoned_first']
        bad = dict((v, ([[t, (None if i >= len(signals[v]) // 2 else x)] for i, (t, x) in enumerate(signals[v])] if v == pv else signals[v]))
                   for v in signals)
        desc['prior'] = {'signals': bad, 'order': sc.get('order'), 'unit': desc.get('unit')}
        r.faults['object_failed_on_a_damaged_log_before'] += 1
    try:
        spec = keep[0] if keep else M.build(desc)
        if keep is not None and not keep:
            keep.append(spec)
        out = M.ct_evaluate(spec, signals, sc.get('order'))
        r.api_calls += 3
    except M.ApiCrash as e:
        r.crashes[e.exc_type] += 1
        r.violate('evaluate-raised', variant=tag, spec=text, signals=signals, **e.describe())
        r.obs.append(['crash', e.exc_type])
        return None
    r.obs.append(out)
    r.evals += 1
    if not (isinstance(out, list) and all(isinstance(p, (list, tuple)) and len(p) == 2 for p in out)):
        r.violate('result-shape', variant=tag, spec=text, got=repr(out)[:300])
        return None
    if not D.nondecreasing(out):
        r.violate('timestamps-nondecreasing', variant=tag, spec=text, signals=signals, got=out)
    if not out or out[0][0] != s0:
        r.violate('starts-at-domain-start', variant=tag, spec=text, signals=signals, got=out[:3], want_start=s0)
    m = D.compare(out, ref, s0, e0, M.num_eq)
    if m is not None:
        r.violate('value-equals-reference', variant=tag, spec=text, signals=signals, got=out, want=ref, at=m[0],
                  got_value=m[1], want_value=m[2])
    return out


def run(sc):
    r = Result()
    ast, signals = sc['ast'], sc['signals']
    used = sg.vars_of(ast)
    try:
        ref = D.eval_dense(ast, dict((v, signals[v]) for v in used))
    except RefError:
        r.discarded = True
        return r
    r.faults.update(sc.get('fired', {}))
    text = sc.get('text') or common.dense_text(ast)
    s0 = max(signals[v][0][0] for v in used)
    e0 = min(signals[v][-1][0] for v in used)
    first = []
    out = _check(r, sc, text, signals, ref, s0, e0, 'recorded', keep=first)
    if sc.get('signals2') and out is not None:
        out2 = _check(r, sc, text, sc['signals2'], ref, s0, min(sc['signals2'][v][-1][0] for v in used), 'resampled')
    if sc.get('again') and first and not r.violations and sg.vars_of(sc['again']):
        # the first monitor object is still alive and is asked again after another requirement's object has run
        usedb = sg.vars_of(sc['again'])
        sb, eb = max(signals[v][0][0] for v in usedb), min(signals[v][-1][0] for v in usedb)
        try:
            refb = D.eval_dense(sc['again'], dict((v, signals[v]) for v in usedb)) if eb >= sb else None
        except RefError:
            refb = None
        if refb is not None and not common.bounded_op_nonzero_start(sc['again'], signals):
            r.faults['first_object_asked_again_after_another'] += 1
            _check(r, sc, common.dense_text(sc['again']), signals, refb, sb, eb, 'second-requirement')
            _check(r, sc, text, signals, ref, s0, e0, 'recorded-again', keep=first)
    r.sim_time += max(0.0, e0 - s0)
    fin = [v for _, v in ref if v not in (float('inf'), -float('inf'))]
    # Allen profile of the sensors
    prof = []
    for i, a in enumerate(used):
        for b in used[i + 1:]:
            p = world.allen_profile(signals[a], signals[b])
            prof.append(','.join(p))
            if any(x in ('equals', 'starts', 'started_by') for x in p[1:]) or \
                    any(sa[0] == sb[0] for sa in signals[a][1:] for sb in signals[b][1:]):
                r.probes['coincident_instants'] += 1
    if prof:
        r.interleavings.add('|'.join(prof))
    if len(ref) >= 2 and fin:
        r.nontrivial.add(sg.shape(ast) + '#' + '|'.join(prof))
    if len(set(signals[v][0][0] for v in used)) > 1:
        r.probes['sensors_start_at_different_instants'] += 1
    for x in sg.walk(ast):
        if x[0] in sg.TUN + sg.TBIN and x[2] * 0.25 > e0 - s0:
            r.probes['window_longer_than_signal'] += 1
            break
    if ref[0][1] in (float('inf'), -float('inf')):
        r.probes['result_starts_with_inf'] += 1
    if any(len(signals[v]) == 1 for v in used):
        r.probes['one_sample_signal'] += 1
    if sc.get('fired', {}).get('resample_inserted') or sc.get('fired', {}).get('resample'):
        r.probes['resample'] += 1
    return r


def shrinks(sc):
    def extra(s):
        if s.get('again'):
            c = copy.deepcopy(s)
            c['again'] = None
            yield c
        if s.get('fine_consts'):
            c = copy.deepcopy(s)
            c['fine_consts'] = False
            yield c
        if s.get('poisoned_first'):
            c = copy.deepcopy(s)
            c['poisoned_first'] = None
            yield c
        if s.get('signals2'):
            c = copy.deepcopy(s)
            c['signals2'] = None
            yield c
        if s.get('cls') != 'ct_off':
            c = copy.deepcopy(s)
            c['cls'] = 'ct_off'
            yield c
    for c in common.shrink_dense(sc, extra=extra):
        used = sg.vars_of(c['ast'])
        if not used:
            continue
        if c.get('signals2') is not None and c['signals'] != sc['signals']:
            c['signals2'] = None
        if min(c['signals'][v][-1][0] for v in used) < max(c['signals'][v][0][0] for v in used):
            continue
        yield c
