"""C10 - reset() returns an online monitor to its initial state (the native crash/restart property).

Run: an online monitor (discrete or dense time, with or without sub-specifications, possibly pastified) is fed a
pre-history whose clock is faulty (so the sampling-violation counter is non-zero), reset() is injected at EVERY
position 0..m of that history (position 0 = before the first update; also twice in a row), then a post sequence
is fed.
Oracle: after reset() the counter is 0 and every post update returns exactly what a freshly constructed, parsed
(and pastified) monitor returns for the same post inputs, counter included. No reference model is involved.
"""
import copy

from .. import specgen as sg
from .. import monitors as M
from .. import world
from ..core import Result
from . import common

ID = 'C10'
LEVEL = 'fault_enumeration'
ENV_OPT_OUT = ('empty_poll',)      # the monitors compared here are not at the same update count (reset / rebuilt stand-alone monitors)
RUNS = {'quick': 16000, 'thorough': 100000}
SIM_TIME_UNIT = 'updates'
RULE = ('seeded generation of (online specification incl. sub-specs and pastified ones, pre-history of 0..10 updates with clock '
        'faults, post sequence of 1..8 updates); inside each run reset() is injected at every position 0..m of the pre-history '
        '(and as a double reset); non-trivial = the post outputs of the fresh monitor are not constant and the un-reset monitor '
        'would have answered differently at some position; distinct = distinct (operator skeleton, time domain, m)')
ASSUMPTIONS = ['the oracle is a freshly constructed real monitor fed only the post sequence',
               'only supported specifications are generated (unsupported ones belong to C17)']
REAL = common.REAL_ALL
STUBS = common.STUBS_ALL
PROBES = ['interface_aware_semantics', 'reset_before_first_update', 'double_reset', 'second_reset_after_more_updates', 'with_subspecs', 'pastified', 'dense_time', 'counter_nonzero_before_reset',
          'reset_matters', 'poisoned_update_did_not_raise', 'only_failed_updates_before_reset', 'reset_before_pastify', 'failed_update_right_after_a_reset', 'reconfigured_before_reset']
INTERLEAVING_MEASURE = 'distinct (time domain, reset position, pre-history length, double-reset) tuples'


def gen(rng, tier):
    dense = rng.random() < 0.4
    nv = rng.randint(1, 2)
    vars_ = common.VARS[:nv]
    future = rng.random() < 0.3
    if dense:
        ops = (set(common.DENSE_PAST_OPS) | {'eventually_b', 'always_b'}) - {'log'} if future else set(common.DENSE_PAST_OPS)   # log: F08
    else:
        ops = (set(common.PAST_OPS) | {'eventually_b', 'always_b', 'until_b', 'unless_b', 'next', 's_next'}) - {'log'} if future else set(common.PAST_OPS)
    for _ in range(100):
        cfg = sg.GenCfg(vars=vars_, ops=ops, max_depth=rng.randint(2, 4), max_bound=rng.choice([2, 4, 6]),
                        p_reuse=rng.choice([0.0, 0.3]))
        ast = sg.gen_formula(rng, cfg)
        if sg.vars_of(ast) and any(x[0] in sg.TEMPORAL for x in sg.walk(ast)):
            break
    vars_ = [v for v in vars_]
    reconf = (not dense) and rng.random() < 0.08
    if reconf:
        # bounds with an explicit unit; before the reset the application switches the default unit AND the sampling period
        # (seconds -> milliseconds): the same text then means 1000 times as many samples
        ops_r = {'once_b', 'historically_b', 'and', 'or', 'not', 'implies', 'once', 'historically', 'prev'}
        for _ in range(50):
            ast = sg.gen_formula(rng, sg.GenCfg(vars=vars_, ops=ops_r, max_depth=rng.randint(2, 3), max_bound=2))
            if sg.vars_of(ast) and any(x[0] in sg.TUN for x in sg.walk(ast)):
                break
        else:
            reconf = False
        future = False
    if (not reconf) and rng.random() < 0.25:
        # a predicate whose left operand is a unary arithmetic operation over a sensor and whose right operand is a constant,
        # evaluated first: with a poisoned sample the update fails BEFORE the constant is reached
        un = [o for o in ('abs', 'neg', 'exp') if o in ops] or ['abs']
        first = ['pred', rng.choice(['>=', '<=']), [rng.choice(un), ['var', rng.choice(vars_)]], ['const', rng.choice(sg.LATTICE)]]
        ast = [rng.choice(['and', 'or', 'implies']), first, ast]
    pastify = any(x[0] in sg.FUTURE_OPS for x in sg.walk(ast)) or rng.random() < 0.1
    modular = None
    if reconf:
        pastify = False
    if (not reconf) and rng.random() < 0.35:
        defs, top = sg.modularize(rng, ast)
        modular = {'defs': defs, 'top': top, 'declare': rng.random() < 0.5, 'via': rng.choice(['add_sub_spec', 'text'])}
    m = rng.randint(0, 10 if tier == 'thorough' else 8)
    npost = rng.randint(1, 8)
    only_positions = None
    if rng.random() < 0.012 and not any(x[0] == 'exp' for x in sg.walk(ast)):
        # a long pre-history (a monitor that ran for a while before it is reset): reset positions are drawn, not enumerated
        m = rng.choice([40, 70, 130])
        only_positions = sorted(set([m, m // 2] + [rng.randrange(m + 1) for _ in range(3)]))
    if dense:
        cls = 'ct_on' if rng.random() < 0.7 else 'ct'
        pre_sig = dict((v, world.gen_dense_signal(rng, m, start_q=0, max_gap_q=4)[0]) for v in vars_) if m else dict((v, []) for v in vars_)
        restart = rng.random() < 0.6
        post_sig = {}
        for v in vars_:
            q0 = 0 if restart else (int(pre_sig[v][-1][0] * 4) + rng.randint(1, 4) if pre_sig[v] else 0)
            post_sig[v] = world.gen_dense_signal(rng, npost, start_q=q0, max_gap_q=4)[0]
        pre = [dict((v, [pre_sig[v][i]]) for v in vars_) for i in range(m)]
        # post delivered in 1..3 batches
        cuts = sorted(set(rng.randrange(1, npost) for _ in range(rng.randint(0, 2)))) if npost > 1 else []
        post = []
        prev = 0
        for c in cuts + [npost]:
            post.append(dict((v, post_sig[v][prev:c]) for v in vars_))
            prev = c
    else:
        cls = 'dt_on' if rng.random() < 0.7 else 'dt'
        data = world.gen_trace(rng, vars_, m + npost)
        t1, _ = world.faulty_clock(rng, max(m, 1), kinds=['jitter_out', 'jitter_in'])
        t2, _ = world.faulty_clock(rng, npost, kinds=[k for k in ('jitter_out', 'offset') if rng.random() < 0.5])
        pre = [[t1[i], dict((v, data[v][i]) for v in vars_)] for i in range(m)]
        post = [[t2[i], dict((v, data[v][m + i]) for v in vars_)] for i in range(npost)]
    # a middle episode: pre, reset, mid, reset, post (state must not leak across two resets either)
    mid_len = rng.randint(1, 4) if rng.random() < 0.6 else 0
    # a poisoned update in the pre-history: one sensor delivers None, update() raises half-way, the application catches the
    # exception (and later resets the monitor)
    pv = ast[1][2][1][1] if (ast[0] in ('and', 'or', 'implies') and ast[1][0] == 'pred' and ast[1][2][0] in ('abs', 'neg', 'exp')
                             and ast[1][2][1][0] == 'var' and rng.random() < 0.7) else rng.choice(sg.vars_of(ast))
    poison = {'at': (rng.choice([0, 0, rng.randrange(m)]) if m else 0), 'var': pv} if rng.random() < 0.45 else None
    return {'reconf': reconf, 'early': rng.random() < 0.4, 'poison': poison, 'poison_mid': rng.random() < 0.5, 'dense': dense, 'cls': cls, 'vars': vars_, 'ast': ast, 'modular': modular, 'pastify': pastify, 'pre': pre,
            'post': post, 'double_at': rng.randint(0, m), 'text': None, 'spell_seed': rng.randrange(1 << 30), 'mid_len': mid_len,
            'only_positions': only_positions,
            # an interface-aware semantics (combined classes only), for the monitor that is reset and the fresh one alike
            'iastl': (common.draw_iastl(rng, vars_, ast, p=0.5) if cls in ('dt', 'ct') else None)}


def spec_desc(sc):
    import random
    dense = sc['dense']
    bp = common.dense_bounds if dense else None
    sp = sg.Spelling(random.Random(sc.get('spell_seed', 0)))
    desc = {'cls': sc['cls'], 'vars': common.var_decls(sc['vars']), 'pastify': bool(sc.get('pastify'))}
    if sc.get('iastl') and sc['cls'] in ('dt', 'ct'):
        desc['semantics'] = sc['iastl']['sem']       # the monitor that is reset and the fresh one alike
        desc['io'] = dict(sc['iastl']['io'])
    mod = sc.get('modular')
    if mod:
        subs = ['%s = %s;' % (n, sg.to_text(a, sp, bp)) for n, a in mod['defs']]
        top = 'out = ' + sg.to_text(mod['top'], sp, bp) + ';'
        if mod.get('declare'):
            desc['vars'] = desc['vars'] + [[n, 'float'] for n, _ in mod['defs']]
        if mod.get('via') == 'text':
            desc['spec'] = '\n'.join(subs) + '\n' + top
        else:
            desc['subspecs'] = subs
            desc['spec'] = top
    elif sc.get('reconf'):
        desc['spec'] = 'out = ' + sg.to_text(sc['ast'], sp, lambda lo, hi, sp_: '[%ds:%ds]' % (lo, hi)) + ';'
    else:
        desc['spec'] = 'out = ' + sg.to_text(sc['ast'], sp, bp) + ';'
    return desc


def step(mon, sc, upd):
    if sc['dense']:
        return M.ct_update(mon, upd, sc['vars'])
    t, vals = upd
    return M.dt_update(mon, t, [(v, vals[v]) for v in sc['vars']])


def poisoned(sc, upd):
    v = sc['poison']['var']
    if sc['dense']:
        return dict((k, ([[smp[0], None] for smp in upd[k]] if k == v else upd[k])) for k in upd)
    t, vals = upd
    return [t, dict(vals, **{v: None})]


def feed_pre(mon, sc, pre, r):
    """feeds a pre-history; the poisoned update (if any) is expected to raise and is swallowed like an application would"""
    po = sc.get('poison')
    for i, u in enumerate(pre):
        if po and i == po['at']:
            try:
                step(mon, sc, poisoned(sc, u))
                r.probes['poisoned_update_did_not_raise'] += 1
            except M.ApiCrash:
                r.faults['update_raised_midway'] += 1
            continue
        if po and i > po['at']:
            # the None sample may sit in the monitor's buffers: later updates may raise as well until the reset
            try:
                step(mon, sc, u)
            except M.ApiCrash:
                r.faults['update_raised_after_poison'] += 1
            continue
        step(mon, sc, u)


def same(a, b, dense):
    if dense:
        if not isinstance(a, list) or not isinstance(b, list) or len(a) != len(b):
            return False
        return all(len(x) == 2 and len(y) == 2 and M.num_eq(x[0], y[0]) and
                   (M.num_eq(x[1], y[1]) or (x[1] != x[1] and y[1] != y[1])) for x, y in zip(a, b))
    return M.num_eq(a, b) or (a != a and b != b)


def _defined(sc):
    dense = sc['dense']
    for seq in (sc['pre'] + sc['post'], sc['post'], sc['pre']):
        if not seq:
            continue
        if dense:
            sig = dict((v, []) for v in sc['vars'])
            for u in seq:
                for v in sc['vars']:
                    for smp in u[v]:
                        if not sig[v] or smp[0] > sig[v][-1][0]:
                            sig[v].append(smp)
            if any(not sig[v] for v in sc['vars']):
                continue
            ok = common.ref_defined([sc['ast']], True, sig)
        else:
            data = dict((v, [u[1][v] for u in seq]) for v in sc['vars'])
            ok = common.ref_defined([sc['ast']], False, data, len(seq))
        if not ok:
            return False
    return True


def run(sc):
    r = Result()
    if not _defined(sc):
        r.discarded = True
        return r
    desc = spec_desc(sc)
    dense = sc['dense']
    pre, post = sc['pre'], sc['post']
    try:
        fresh = M.build(desc)
        want = []
        for u in post:
            o = step(fresh, sc, u)
            want.append([o, fresh.sampling_violation_counter])
        r.api_calls += 2 + len(post)
    except M.ApiCrash as e:
        r.crashes[e.exc_type] += 1
        r.violate('fresh-monitor-raised', spec=desc, **e.describe())
        return r
    r.obs.append(want)
    m = len(pre)
    plist = [p for p in (sc.get('only_positions') or range(m + 1)) if p <= m]
    if sc.get('only_positions'):
        r.probes['long_pre_history'] += 1
    positions = [(p, 1, False) for p in plist] + [(min(sc.get('double_at', 0), m), 2, False)]
    mid = post[:sc.get('mid_len', 0)] if sc.get('mid_len') else []
    if mid:
        # episodes: pre[:p], reset, mid (= a prefix of the post inputs), reset, post
        positions += [(p, 1, True) for p in sorted(set([0, m, m // 2]))]
    if sc.get('early'):
        # reset() right after parse(), BEFORE the remaining preparation (pastify) - "before the first update" in its earliest form
        positions.append((0, 1, 'early'))
    matters = False
    for p, times, use_mid in positions:
        r.interleavings.add('%s|p=%d|m=%d|x%d|mid=%s' % ('ct' if dense else 'dt', p, m, times, len(mid) if use_mid else 0))
        r.faults['reset'] += times
        try:
            early = use_mid == 'early'
            if early:
                use_mid = False
                r.probes['reset_before_pastify'] += 1
            mon = M.build(dict(desc, prior={'early_reset': True}) if early else desc)
            feed_pre(mon, sc, pre[:p], r)
            before = mon.sampling_violation_counter
            d0 = M.state_digest(mon)
            for _ in range(times):
                M.api('reset', mon.reset)
            r.api_calls += 2 + p + times
            if before:
                r.probes['counter_nonzero_before_reset'] += 1
            if sc.get('poison') and p == 1 and sc['poison']['at'] == 0:
                r.probes['only_failed_updates_before_reset'] += 1
            d1 = M.state_digest(mon)
            if d1:
                r.states.add(d1)
            if not dense:
                r.evals += 1
                if mon.sampling_violation_counter != 0:
                    r.violate('counter-restarts-at-0', position=p, resets=times, counter=mon.sampling_violation_counter,
                              spec=desc, pre=pre[:p])
                    return r
            if use_mid and sc.get('poison') and sc.get('poison_mid'):
                # the middle episode starts with an update that raises half-way; nothing is claimed until the next reset
                r.probes['second_reset_after_more_updates'] += 1
                r.probes['failed_update_right_after_a_reset'] += 1
                for i, u in enumerate(mid):
                    try:
                        step(mon, sc, poisoned(sc, u) if i == 0 else u)
                    except M.ApiCrash:
                        r.faults['update_raised_midway' if i == 0 else 'update_raised_after_poison'] += 1
                M.api('reset', mon.reset)
                r.faults['reset'] += 1
            elif use_mid:
                r.probes['second_reset_after_more_updates'] += 1
                for i, u in enumerate(mid):
                    o = step(mon, sc, u)
                    r.evals += 1
                    if not same(o, want[i][0], dense) or mon.sampling_violation_counter != want[i][1]:
                        r.violate('post-reset-output-equals-fresh', position=p, resets=1, episode='middle', step=i, got=o, want=want[i][0],
                                  spec=desc, pre=pre[:p], post=post)
                        return r
                M.api('reset', mon.reset)
                r.faults['reset'] += 1
            got = []
            for u in post:
                o = step(mon, sc, u)
                got.append([o, mon.sampling_violation_counter])
                r.api_calls += 1
        except M.ApiCrash as e:
            r.crashes[e.exc_type] += 1
            r.violate('raised-around-reset', position=p, resets=times, spec=desc, pre=pre[:p], post=post, **e.describe())
            r.obs.append(['crash', p, e.exc_type])
            return r
        r.sim_time += p + len(post)
        for i, (g, w) in enumerate(zip(got, want)):
            r.evals += 1
            if not same(g[0], w[0], dense):
                r.violate('post-reset-output-equals-fresh', position=p, resets=times, episode=('after second reset' if use_mid else 'after reset'),
                          step=i, got=g[0], want=w[0], spec=desc, pre=pre[:p], post=post)
                return r
            if g[1] != w[1]:
                r.violate('post-reset-counter-equals-fresh', position=p, resets=times, step=i, got=g[1], want=w[1], spec=desc,
                          pre=pre[:p], post=post)
                return r
        if p == 0:
            r.probes['reset_before_first_update'] += 1
        if times == 2:
            r.probes['double_reset'] += 1
        # would the un-reset monitor have answered differently? (makes the case non-trivial)
        if p > 0 and not matters:
            try:
                mon2 = M.build(desc)
                for u in pre[:p]:
                    step(mon2, sc, u)
                got2 = [step(mon2, sc, u) for u in post]
                if any(not same(a, b[0], dense) for a, b in zip(got2, want)):
                    matters = True
            except M.ApiCrash:
                matters = True
    if sc.get('reconf') and not r.violations:
        newcfg = {'unit': 'ms', 'sampling': [1, 'ms', 0.1]}
        post2 = [[i, u[1]] for i, u in enumerate(post)]          # the post episode is stamped in milliseconds, 1 ms apart
        try:
            fresh2 = M.build(dict(desc, **newcfg))
            want2 = [step(fresh2, sc, u) for u in post2]
            mon = M.build(desc)
            feed_pre(mon, sc, pre, r)
            M.apply_config(mon, {}, newcfg)
            M.api('reset', mon.reset)
            got2 = [step(mon, sc, u) for u in post2]
            r.faults['reconfigured_before_reset'] += 1
            r.probes['reconfigured_before_reset'] += 1
            r.evals += len(post2)
            for i, (g, w) in enumerate(zip(got2, want2)):
                if not same(g, w, False):
                    r.violate('post-reset-output-equals-fresh', episode='after re-configuration and reset', step=i, got=g, want=w,
                              spec=desc, new_configuration=newcfg, pre=pre, post=post2)
                    break
        except M.ApiCrash as e:
            r.crashes[e.exc_type] += 1
            r.violate('raised-around-reset', episode='after re-configuration and reset', spec=desc, **e.describe())
    if sc.get('modular'):
        r.probes['with_subspecs'] += 1
    if sc.get('pastify'):
        r.probes['pastified'] += 1
    if sc.get('iastl') and sc['cls'] in ('dt', 'ct'):
        r.probes['interface_aware_semantics'] += 1
    if dense:
        r.probes['dense_time'] += 1
    if matters:
        r.probes['reset_matters'] += 1
        outs = [repr(w[0]) for w in want]
        if len(set(outs)) > 1 or dense:
            r.nontrivial.add('%s|%s|m=%d' % (sg.shape(sc['ast']), 'ct' if dense else 'dt', m))
    return r


def shrinks(sc):
    if sc.get('poison'):
        c = copy.deepcopy(sc)
        c['poison'] = None
        yield c
    if sc.get('early'):
        c = copy.deepcopy(sc)
        c['early'] = False
        yield c
    if sc.get('reconf'):
        return       # (the directed re-configuration scenario is not minimised further than its histories)
    if sc.get('mid_len'):
        for ml in (0, sc['mid_len'] - 1):
            c = copy.deepcopy(sc)
            c['mid_len'] = ml
            yield c
    if sc.get('modular'):
        c = copy.deepcopy(sc)
        c['modular'] = None
        yield c
    for k in ('pre', 'post'):
        n = len(sc[k])
        for mlen in (0, n // 2, n - 1):
            if (k == 'post' and mlen < 1) or mlen >= n or mlen < 0:
                continue
            c = copy.deepcopy(sc)
            c[k] = sc[k][:mlen]
            c['double_at'] = min(c.get('double_at', 0), len(c['pre']))
            yield c
        if n > 1:
            c = copy.deepcopy(sc)
            c[k] = sc[k][1:]
            c['double_at'] = min(c.get('double_at', 0), len(c['pre']))
            yield c
    if not sc.get('modular'):
        for a2 in sg.shrink_candidates(sc['ast']):
            if not sg.vars_of(a2):
                continue
            c = copy.deepcopy(sc)
            c['ast'] = a2
            if any(x[0] in sg.FUTURE_OPS for x in sg.walk(a2)):
                c['pastify'] = True
            yield c
