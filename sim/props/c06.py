"""C06 - interface-aware semantics differ from standard only at insensitive predicates.

Run: a specification, an input/output assignment of its variables (input / output / not declared; set with
set_var_io_type() before parse()), one of the five semantics and one of the four monitor kinds (online kinds are
stepped / chunked).
Oracle: the result equals the reference model with the predicate hook of the statement: under output-robustness a
predicate that mentions no output variable is +inf where it holds and -inf where it does not (input-robustness:
no input variable); under output-/input-vacuity such a predicate is 0; every other predicate is numeric. With
Semantics.STANDARD the outputs with and without input/output declarations are identical.
"""
import copy

from .. import specgen as sg
from .. import monitors as M
from .. import world
from .. import msgs
from ..core import Result
from ..ref import dense as D
from ..ref.discrete import eval_discrete, RefError, pred_value, pred_sat
from . import common

ID = 'C06'
LEVEL = 'exploration'
RUNS = {'quick': 70000, 'thorough': 400000}
SIM_TIME_UNIT = 'samples / dense time units'
RULE = ('seeded generation of (specification, i/o assignment in {input, output, undeclared}^K, semantics, monitor kind, data, '
        'stepping/chunking); non-trivial = the expected result differs from the standard robustness somewhere (an insensitive '
        'predicate matters) or semantics is STANDARD with declarations; distinct = distinct (operator skeleton, semantics, kind, '
        'i/o assignment)')
ASSUMPTIONS = ['a variable whose i/o type is not declared counts as an output (declare_var() defaults to output)',
               'a predicate mentions the variables of both operands', '"holds" is the Boolean truth of the comparison (<= true at '
               'equality, < false)', 'reference = RefDiscrete/RefDense with the predicate hook; NaN scenarios discarded',
               'online kinds: past-time formulas only; dense: all sensors start at 0']
REAL = common.REAL_ALL
STUBS = common.STUBS_ALL
ENVELOPE_RULES = ['memory-past-above-delayed (F08), narrowed: only a past operator with UNBOUNDED memory (once, historically, since) above a sub-formula with horizon > 0 is excluded; with bounded memory m (prev/s_prev/rise/fall: 1, bounded operators: their upper bound, summed along nesting) the comparison starts m updates after the horizon (common.warmup_extra)']
INTERLEAVING_MEASURE = 'distinct (monitor kind, mode, number of updates or batches) tuples'
PROBES = ['pastified', 'modular_specification', 'predicate_mixes_input_and_output', 'insensitive_predicate_present', 'sensitive_predicate_present', 'standard_with_declarations',
          'vacuity', 'dense_offline', 'dense_online', 'discrete_offline', 'discrete_online', 'predicate_at_equality', 'message_typed_variable']

SEMS = ['standard', 'output-robustness', 'input-robustness', 'output-vacuity', 'input-vacuity']
INF = float('inf')


def gen(rng, tier):
    kind = rng.choice(['dt', 'ct'])
    mode = rng.choice(['off', 'on'])
    dense = kind == 'ct'
    nv = rng.randint(1, 3)
    vars_ = common.VARS[:nv]
    future = mode == 'on' and rng.random() < 0.4
    if mode == 'off':
        ops = common.DENSE_OFFLINE_OPS if dense else set(sg.ALL_OPS)
    elif dense:
        ops = set(common.DENSE_PAST_OPS) | ({'eventually_b', 'always_b'} if future else set())
    else:
        ops = set(common.PAST_OPS) | ({'eventually_b', 'always_b', 'until_b', 'unless_b', 'next'} if future else set())
    for _ in range(200):
        ast = sg.gen_formula(rng, sg.GenCfg(vars=vars_, ops=ops, max_depth=rng.randint(2, 4), max_bound=rng.choice([2, 4]),
                                            p_loose=rng.choice([0.03, 0.03, 0.3]), allow_const_only=rng.random() < 0.1))
        if any(x[0] == 'pred' for x in sg.walk(ast)) and sg.vars_of(ast) and not common.f08_blind(ast):
            break
    io = dict((v, rng.choice(['input', 'output', None])) for v in vars_)
    sem = rng.choice(SEMS)
    pastify = mode == 'on' and (any(x[0] in sg.FUTURE_OPS for x in sg.walk(ast)) or rng.random() < 0.1)
    modular = None
    if rng.random() < 0.3:
        # directed: an arithmetic sub-specification shared by several predicates (the i/o sets of a shared node must not
        # be polluted by one of its users)
        t1, top = common.gen_shared_arith(rng, vars_, mode)
        modular = {'defs': [['p1', t1]], 'top': top, 'via': rng.choice(['add_sub_spec', 'text'])}
        ast = sg.inline(modular['defs'], top)
        pastify = mode == 'on' and rng.random() < 0.1
    elif rng.random() < 0.35 and sg.size(ast) >= 4:
        defs, top = sg.modularize(rng, ast, max_subs=2, prefer_stateful=False)
        modular = {'defs': defs, 'top': top, 'via': rng.choice(['add_sub_spec', 'text'])}
    # message-typed variables: declared with an imported class type and read through a field (a.value)
    structs = dict((v, rng.choice(msgs.PATHS)) for v in vars_ if rng.random() < 0.5) if rng.random() < 0.15 else {}
    sc = {'kind': kind, 'mode': mode, 'vars': vars_, 'ast': ast, 'io': io, 'sem': sem, 'pastify': bool(pastify), 'modular': modular,
          'structs': structs}
    declared = [v for v in vars_ if io[v]]
    if declared and rng.random() < 0.12:
        flip = [v for v in declared if rng.random() < 0.6] or [declared[0]]
        sc['prior_io'] = dict((v, ({'input': 'output', 'output': 'input'}[io[v]] if v in flip else io[v])) for v in declared)
    if dense:
        sc['signals'] = dict((v, world.gen_dense_signal(rng, rng.randint(1, 6), start_q=0, max_gap_q=4)[0]) for v in vars_)
        sc['nbatches'] = rng.randint(1, 3)
    else:
        sc['n'] = rng.randint(1, 8) + (int(sg.horizon(ast)) + int(common.warmup_extra(ast)) if pastify else 0)
        sc['data'] = world.gen_trace(rng, vars_, sc['n'])
        common.add_clock(rng, sc)
    return sc


def _memory_above_future(ast):
    for x in sg.walk(ast):
        if x[0] in sg.MEMORY_PAST and any(sg.horizon(c) > 0 for c in sg.children(x)):
            return True
    return False


def envelope(sc):
    return common.f08_blind(sc['ast']) if sc.get('pastify') else []


def insensitive(sem, io, node):
    vs = sg.vars_of(node)
    outs = [v for v in vs if io.get(v) != 'input']
    ins = [v for v in vs if io.get(v) == 'input']
    if sem in ('output-robustness', 'output-vacuity'):
        return not outs
    if sem in ('input-robustness', 'input-vacuity'):
        return not ins
    return False


def hook_scalar(sem, io):
    def h(node, l, r):
        if insensitive(sem, io, node):
            if sem.endswith('vacuity'):
                return 0.0
            if l == r and l in (INF, -INF):
                # both operands infinite with the same sign (a predicate over insensitive predicates: the grammar is untyped):
                # the robustness l - r of the comparison is NaN, outside the numeric envelope (DESIGN 3.6) - no defined value
                # (false alarm of vp check 7 at VERIF_SEED 1, DESIGN 8.2)
                raise RefError('NaN')
            return INF if pred_sat(node[1], l, r) else -INF
        return pred_value(node[1], l, r)
    return h


def hook_list(sem, io):
    hs = hook_scalar(sem, io)

    def h(node, xs, ys):
        return [hs(node, x, y) for x, y in zip(xs, ys)]
    return h


def eqn(a, b):
    return M.num_eq(a, b)


def desc_of(sc, with_io=True, sem=None):
    dense = sc['kind'] == 'ct'
    st = sc.get('structs') or {}
    if not isinstance(st, dict):
        st = dict((v, 'value') for v in st)
    sast = common.structify(sc['ast'], st)
    text = common.dense_text(sast) if dense else 'out = ' + sg.to_text(sast) + ';'
    d = {'cls': sc['kind'], 'semantics': sem or sc['sem'], 'vars': [[v, 'Msg' if v in st else 'float'] for v in sc['vars']], 'spec': text,
         'pastify': bool(sc.get('pastify')) and sc['mode'] == 'on'}
    mod = sc.get('modular')
    if mod:
        bp = common.dense_bounds if dense else None
        subs = ['%s = %s;' % (n, sg.to_text(common.structify(a, st), None, bp)) for n, a in mod['defs']]
        top = 'out = ' + sg.to_text(common.structify(mod['top'], st), None, bp) + ';'
        if mod.get('via') == 'text':
            d['spec'] = '\n'.join(subs) + '\n' + top
        else:
            d['subspecs'] = subs
            d['spec'] = top
    if with_io:
        d['io'] = dict((v, t) for v, t in sc['io'].items() if t)
        if sc.get('prior_io') and not d.get('subspecs'):
            # the object was parsed once under other input/output declarations; set_var_io_type(), then parse() again
            d['prior'] = {'spec': d['spec'], 'io': dict((v, t) for v, t in sc['prior_io'].items() if v in d['io'])}
    return d


def evaluate(sc, desc, r):
    """returns the output: list of values (discrete) or concatenated sample list (dense)"""
    dense = sc['kind'] == 'ct'
    mon = M.build(desc)
    r.api_calls += 2
    if sc['mode'] == 'off':
        if dense:
            return M.ct_evaluate(mon, sc['signals'], sc['vars'])
        return [p[1] for p in M.dt_evaluate(mon, common.stamps_of(sc), sc['data'])]
    if dense:
        sig, nb = sc['signals'], sc['nbatches']
        out = []
        for k in range(nb):
            out += M.ct_update(mon, dict((v, sig[v][len(sig[v]) * k // nb:len(sig[v]) * (k + 1) // nb]) for v in sc['vars']), sc['vars'])
            d = M.state_digest(mon)
            if d:
                r.states.add(d)
        return out
    out = []
    for i in range(sc['n']):
        out.append(M.dt_update(mon, common.stamps_of(sc)[i], [(v, sc['data'][v][i]) for v in sc['vars']]))
        d = M.state_digest(mon)
        if d:
            r.states.add(d)
    return out


def run(sc):
    r = Result()
    r.faults.update(sc.get('fired') or {})
    r.interleavings.add('%s|%s|%s' % (sc.get('kind'), sc.get('mode', ''), sc.get('nbatches') or sc.get('n')))
    if sc.get('nbatches', 1) > 1:
        r.faults['batch_split'] += sc['nbatches'] - 1
    dense = sc['kind'] == 'ct'
    ast, sem, io = sc['ast'], sc['sem'], sc['io']
    used = sg.vars_of(ast)
    try:
        if dense:
            sig = dict((v, sc['signals'][v]) for v in used)
            ref = D.eval_dense(ast, sig, pred_hook=hook_scalar(sem, io))
            std = D.eval_dense(ast, sig)
        else:
            ref = eval_discrete(ast, sc['data'], sc['n'], pred_hook=hook_list(sem, io))
            std = eval_discrete(ast, sc['data'], sc['n'])
    except RefError:
        r.discarded = True
        return r
    if not dense and sc['mode'] == 'on' and not common.ref_defined_on_prefixes([ast], sc['data'], sc['n']):
        r.discarded = True
        return r
    try:
        out = evaluate(sc, desc_of(sc), r)
    except M.ApiCrash as e:
        r.crashes[e.exc_type] += 1
        r.violate('api-raised', spec=desc_of(sc), mode=sc['mode'], **e.describe())
        r.obs.append(['crash', e.exc_type])
        return r
    r.obs.append(out)
    r.evals += 1
    bad = None
    h = sg.horizon(ast) if sc.get('pastify') else 0
    wx = common.warmup_extra(ast) if sc.get('pastify') else 0      # F08: compare once the warm-up left every operator's memory
    if sc.get('pastify'):
        r.probes['pastified'] += 1
    if wx:
        r.probes['compared_after_warmup_memory'] += 1
    if sc.get('modular'):
        r.probes['modular_specification'] += 1
    if sc.get('structs'):
        r.probes['message_typed_variable'] += 1
    if desc_of(sc).get('prior'):
        r.faults['io_declarations_changed_and_reparsed'] += 1
    if dense:
        f = D.from_samples(out) if isinstance(out, list) else None
        s0 = max(sc['signals'][v][0][0] for v in used)
        e0 = min(sc['signals'][v][-1][0] for v in used)
        if sc['mode'] == 'off':
            bad = D.compare(out, ref, s0, e0, eqn)
        elif f:
            lo, hi = max(f[0][0], s0), f[-1][0]
            if not D.nondecreasing(out):
                bad = 'decreasing stamps'
            else:
                hh = h * common.DENSE_TICK
                shifted = [(p_[0] + hh, p_[1]) for p_ in ref]
                for t in D.check_points([f, shifted], lo, hi):
                    if t - hh < s0 + wx * common.DENSE_TICK:
                        continue
                    if not eqn(D.at(f, t), D.at(ref, t - hh)):
                        bad = (t, D.at(f, t), D.at(ref, t - hh))
                        break
        r.sim_time += max(0.0, e0 - s0)
    else:
        if len(out) != sc['n']:
            bad = 'length'
        elif h == 0:
            if not all(eqn(a, b) for a, b in zip(out, ref)):
                bad = 'values'
        else:
            # pastified: the i-th update reports sample i-h of the original specification on the prefix 0..i
            for i in range(int(h) + int(wx), sc['n']):
                try:
                    pref = eval_discrete(ast, dict((v, sc['data'][v][:i + 1]) for v in sc['data']), i + 1, pred_hook=hook_list(sem, io))
                except RefError:
                    r.discarded = True
                    return r
                if not eqn(out[i], pref[i - int(h)]):
                    bad = ('step', i, out[i], pref[i - int(h)])
                    break
        r.sim_time += sc['n']
    if bad:
        r.violate('iastl-equals-reference', semantics=sem, io=io, mode=sc['mode'], spec=desc_of(sc)['spec'], kind=sc['kind'],
                  data=sc.get('data') or sc.get('signals'), got=out, want=ref, why=repr(bad))
    if sem == 'standard' and not bad:
        # declarations have no effect at all under STANDARD
        try:
            out2 = evaluate(sc, desc_of(sc, with_io=False), r)
            r.evals += 1
            def eqx(a, b):
                return M.num_eq(a, b) or (a != a and b != b)      # NaN in a warm-up region on both sides
            same = (len(out) == len(out2) and all(
                (eqx(a[0], b[0]) and eqx(a[1], b[1])) if dense else eqx(a, b) for a, b in zip(out, out2)))
            if not same:
                r.violate('standard-ignores-io-declarations', io=io, mode=sc['mode'], spec=desc_of(sc)['spec'], with_io=out,
                          without_io=out2)
        except M.ApiCrash as e:
            r.crashes[e.exc_type] += 1
            r.violate('api-raised', spec=desc_of(sc, with_io=False), mode=sc['mode'], **e.describe())
        if any(io.values()):
            r.probes['standard_with_declarations'] += 1
    preds = [x for x in sg.walk(ast) if x[0] == 'pred']
    if any(insensitive(sem, io, p) for p in preds):
        r.probes['insensitive_predicate_present'] += 1
    if any(not insensitive(sem, io, p) for p in preds):
        r.probes['sensitive_predicate_present'] += 1
    for p in preds:
        vs = sg.vars_of(p)
        if any(io.get(v) == 'input' for v in vs) and any(io.get(v) != 'input' for v in vs):
            r.probes['predicate_mixes_input_and_output'] += 1
            break
    if sem.endswith('vacuity'):
        r.probes['vacuity'] += 1
    r.probes[('dense_' if dense else 'discrete_') + ('offline' if sc['mode'] == 'off' else 'online')] += 1
    differs = (ref != std)
    if differs or (sem == 'standard' and any(io.values())):
        r.nontrivial.add('%s|%s|%s%s|%s' % (sg.shape(ast), sem, sc['kind'], sc['mode'], ','.join('%s=%s' % (v, io[v]) for v in sorted(io))))
    return r


def shrinks(sc):
    dense = sc['kind'] == 'ct'
    if sc.get('structs'):
        c = copy.deepcopy(sc)
        c['structs'] = {}
        yield c
    if sc.get('modular'):
        c = copy.deepcopy(sc)
        c['modular'] = None
        yield c
        return      # the formula is only shrunk in inlined form
    for v in sorted(sc['io']):
        if sc['io'][v] is not None:
            c = copy.deepcopy(sc)
            c['io'][v] = None
            yield c
    if dense:
        if sc.get('nbatches', 1) > 1:
            c = copy.deepcopy(sc)
            c['nbatches'] = 1
            yield c
        for c in common.shrink_dense(sc):
            if sg.vars_of(c['ast']) and any(x[0] == 'pred' for x in sg.walk(c['ast'])):
                yield c
    else:
        for c in common.shrink_discrete(sc):
            if sg.vars_of(c['ast']):
                yield c
