"""C12 - named sub-formula values are the robustness of that sub-formula.

Run: a specification with several named assertions / sub-specifications (referenced once, several times, or not at
all) on one of the four monitor kinds (online ones also pastified). After evaluate() and after EVERY update() the
harness reads get_value(name) for every name and every input variable of the formula.
Oracle: inputs return the supplied data; each name returns what a stand-alone real monitor of the inlined formula
(pastified on its own if the parent was) returns on the same data - whole signal offline (one value per sample in
discrete time), current value online; the stand-alone monitors are stepped in lock-step.
"""
import copy
import random

import json

from .. import specgen as sg
from .. import monitors as M
from .. import world
from ..core import Result
from ..ref import dense as D
from . import common

ID = 'C12'
LEVEL = 'exploration'
ENV_OPT_OUT = ('empty_poll',)      # the monitors compared here are not at the same update count (reset / rebuilt stand-alone monitors)
RUNS = {'quick': 30000, 'thorough': 200000}
SIM_TIME_UNIT = 'updates / evaluations'
RULE = ('seeded generation of (modular specification with 1-4 named sub-specifications incl. shared, nested and unreferenced '
        'ones, monitor kind, data); every update is a checked history for the online kinds; non-trivial = some named value is '
        'finite and not constant; distinct = distinct (operator skeleton of the top formula, kind, number of names)')
ASSUMPTIONS = ['the oracle for a name is a stand-alone real monitor of the inlined formula, stepped in lock-step',
               'dense-time offline values are compared as step functions on the common domain (merging is not constrained)',
               'only variables that occur in the specification are read back']
REAL = common.REAL_ALL
STUBS = common.STUBS_ALL
INTERLEAVING_MEASURE = 'distinct (monitor kind, mode, number of updates or batches) tuples'
PROBES = ['interface_aware_semantics', 'shared_subspec', 'nested_subspec', 'unreferenced_assertion', 'pastified', 'operand_of_bounded_future', 'online', 'dense_time', 'update_after_a_failed_update']


def gen(rng, tier):
    kind = rng.choice(['dt_off', 'dt_on', 'ct_off', 'ct_on', 'dt', 'ct'])
    dense = kind.startswith('ct')
    mode = {'dt_off': 'off', 'ct_off': 'off', 'dt_on': 'on', 'ct_on': 'on'}.get(kind) or rng.choice(['off', 'on'])
    nv = rng.randint(1, 3)
    vars_ = common.VARS[:nv]
    future = rng.random() < 0.4
    if mode == 'off':
        ops = common.DENSE_OFFLINE_OPS if dense else set(sg.ALL_OPS)
    elif dense:
        ops = (set(common.DENSE_PAST_OPS) | {'eventually_b', 'always_b'}) - {'log'} if future else set(common.DENSE_PAST_OPS)
    else:
        ops = (set(common.PAST_OPS) | {'eventually_b', 'always_b', 'until_b', 'unless_b', 'next'}) - {'log'} if future else set(common.PAST_OPS)   # log: F08
    for _ in range(100):
        ast = sg.gen_formula(rng, sg.GenCfg(vars=vars_, ops=ops, max_depth=rng.randint(3, 5), max_bound=rng.choice([2, 4]),
                                            p_reuse=rng.choice([0.1, 0.3]), p_loose=rng.choice([0.08, 0.25]), p_near=rng.choice([0.0, 0.0, 0.5])))
        if sg.size(ast) >= 4 and sg.vars_of(ast) and not (mode == 'on' and common.warmup_visible(ast)):
            break
    if rng.random() < 0.12:
        ast = sg.add_near_duplicate(rng, ast)      # two requirements that differ in a late decimal of one constant
    if rng.random() < 0.2:
        ast = sg.add_operator_twin(rng, ast, set(ops))                  # the same operands under another operator (log/pow ...)
    defs, top = sg.modularize(rng, ast, max_subs=3)
    iastl = None
    if kind in ('dt', 'ct') and rng.random() < 0.4:
        # interface-aware semantics (only the combined classes take one): the parent and every stand-alone monitor get the same
        # semantics and input/output declarations
        iastl = {'sem': rng.choice(['output-robustness', 'input-robustness', 'output-vacuity', 'input-vacuity']),
                 'io': dict((v, rng.choice(['input', 'output'])) for v in vars_ if rng.random() < 0.85)}
        if nv >= 2 and rng.random() < 0.4 and not (mode == 'on' and future):
            # directed: a named arithmetic sub-specification used as operand of several named predicates, one of which also
            # mentions a variable of the other direction
            x_, y_ = rng.sample(vars_, 2)
            t1 = rng.choice([['abs', ['var', x_]], ['*', ['const', 2.0], ['var', x_]], ['-', ['var', x_], ['const', 1.0]]])
            q1 = ['pred', rng.choice(sg.CMPS), ['ref', 'p1'], ['const', rng.choice(sg.LATTICE)]]
            q2 = ['pred', rng.choice(sg.CMPS), ['ref', 'p1'], ['var', y_]]
            if rng.random() < 0.3:
                q2 = ['pred', q2[1], q2[3], q2[2]]
            first, second = (q1, q2) if rng.random() < 0.6 else (q2, q1)
            defs = [['p1', t1], ['p2', first]]
            top = [rng.choice(['and', 'or', 'implies']), ['ref', 'p2'], second]
            if rng.random() < 0.4:
                top = [rng.choice(['once', 'historically']), top]
            ast = sg.inline(defs, top)
    if rng.random() < 0.1:
        # an alias sub-specification: a bare constant or a bare variable with a name of its own
        defs, top = sg.add_alias(rng, defs, top, 'q0')
    extra = None
    if rng.random() < 0.3:
        for _ in range(50):
            extra = ['q1', sg.gen_formula(rng, sg.GenCfg(vars=vars_, ops=ops, max_depth=3, max_bound=2))]
            if not (mode == 'on' and common.warmup_visible(extra[1])):
                break
        else:
            extra = None
    pastify = mode == 'on' and (any(x[0] in sg.FUTURE_OPS for x in sg.walk(ast)) or
                                (extra and any(x[0] in sg.FUTURE_OPS for x in sg.walk(extra[1]))) or rng.random() < 0.1)
    if iastl and not common.iastl_safe(ast):
        iastl = None            # iff / xor or arithmetic over +-inf predicates: inf - inf, outside the numeric envelope
    sc = {'iastl': iastl, 'kind': kind, 'mode': mode, 'vars': vars_, 'ast': ast, 'defs': defs, 'top': top, 'extra': extra, 'pastify': bool(pastify),
          'declare': rng.random() < 0.5, 'via': rng.choice(['add_sub_spec', 'text']), 'spell_seed': rng.randrange(1 << 30)}
    if dense:
        sc['signals'] = dict((v, world.gen_dense_signal(rng, rng.randint(2, 7), start_q=0, max_gap_q=4)[0]) for v in vars_)
        sc['nbatches'] = rng.randint(1, 4)
    else:
        sc['n'] = rng.randint(1, 9)
        if rng.random() < 0.015 and not any(x[0] == 'exp' for x in sg.walk(ast)):
            sc['n'] = rng.choice([70, 130, 260])       # a long run (result tables, counters, buffers that switch strategy at a size)
        sc['data'] = world.gen_trace(rng, vars_, sc['n'])
        common.add_clock(rng, sc)
        if mode == 'on' and not pastify and sc['n'] >= 2 and rng.random() < 0.25:
            # one update() raises half-way: a further sensor z, read only by the last conjunct of the top assertion, delivers
            # None once; the application catches the exception and keeps monitoring with the same object
            sc['poison'] = {'at': rng.randrange(sc['n'] - 1)}
    rounds = sc['nbatches'] if dense else sc['n']
    if mode == 'on' and not sc.get('poison') and rounds >= 2 and rng.random() < 0.2:
        # reset() between two updates: the named values afterwards are those of monitors that only saw the later inputs
        sc['reset_at'] = rng.randrange(1, rounds)
    return sc


ENVELOPE_RULES = ['memory-past-above-delayed / partial-function-over-delayed (F08, F08b) for pastified specifications']


def envelope(sc):
    if not sc.get('pastify'):
        return []
    return common.warmup_visible(sc['ast']) + (common.warmup_visible(sc['extra'][1]) if sc.get('extra') else [])


def names_of(sc):
    out = [[n, sg.inline(sc['defs'], a)] for n, a in sc['defs']]
    if sc.get('extra'):
        out.append(list(sc['extra']))
    out.append(['out', sc['ast']])
    return out


def parent_desc(sc):
    dense = sc['kind'].startswith('ct')
    bp = common.dense_bounds if dense else None
    sp = sg.Spelling(random.Random(sc.get('spell_seed', 0)))
    subs = ['%s = %s;' % (n, sg.to_text(a, sp, bp)) for n, a in sc['defs']]
    if sc.get('extra'):
        subs.append('%s = %s;' % (sc['extra'][0], sg.to_text(sc['extra'][1], sp, bp)))
    top = 'out = ' + sg.to_text(sc['top'], sp, bp) + ';'
    desc = {'cls': sc['kind'], 'vars': common.var_decls(sc['vars']), 'pastify': sc['pastify']}
    if sc.get('poison'):
        top = 'out = ' + sg.to_text(['and', sc['top'], ['pred', '>=', ['var', 'z'], ['const', 0.0]]], sp, bp) + ';'
        desc['vars'] = desc['vars'] + [['z', 'float']]
    if sc.get('declare'):
        desc['vars'] = desc['vars'] + [[n, 'float'] for n, _ in sc['defs']] + ([[sc['extra'][0], 'float']] if sc.get('extra') else [])
    if sc.get('via') == 'text':
        desc['spec'] = '\n'.join(subs) + '\n' + top
    else:
        desc['subspecs'] = subs
        desc['spec'] = top
    if sc.get('iastl') and sc['kind'] in ('dt', 'ct'):
        desc['semantics'] = sc['iastl']['sem']
        desc['io'] = dict(sc['iastl']['io'])
    return desc


def alone_desc(sc, ast):
    dense = sc['kind'].startswith('ct')
    text = common.dense_text(ast) if dense else 'out = ' + sg.to_text(ast) + ';'
    past = sc['pastify'] and True
    d = {'cls': sc['kind'], 'vars': common.var_decls(sc['vars']), 'spec': text, 'pastify': past}
    if sc.get('iastl') and sc['kind'] in ('dt', 'ct'):
        d['semantics'] = sc['iastl']['sem']
        d['io'] = dict(sc['iastl']['io'])
    return d


def eqn(a, b):
    return M.num_eq(a, b) or (a != a and b != b)


def eq_samples(a, b):
    return isinstance(a, list) and isinstance(b, list) and len(a) == len(b) and all(
        len(x) == 2 and len(y) == 2 and eqn(x[0], y[0]) and eqn(x[1], y[1]) for x, y in zip(a, b))


def run(sc):
    r = Result()
    if sc.get('iastl') and not common.iastl_safe(sc['ast']):
        r.discarded = True      # inf - inf under an interface-aware semantics: outside the numeric envelope (DESIGN 3.6)
        return r
    r.faults.update(sc.get('fired') or {})
    r.interleavings.add('%s|%s|%s' % (sc.get('kind'), sc.get('mode', ''), sc.get('nbatches') or sc.get('n')))
    if sc.get('nbatches', 1) > 1:
        r.faults['batch_split'] += sc['nbatches'] - 1
    dense = sc['kind'].startswith('ct')
    names = names_of(sc)
    poison = sc.get('poison') if (sc['mode'] == 'on' and not dense and not sc['pastify']) else None
    if not common.ref_defined([a for _, a in names], dense, sc['signals'] if dense else sc['data'], sc.get('n')):
        r.discarded = True
        return r
    if poison:
        if not common.ref_defined_on_prefixes([a for _, a in names], sc['data'], sc['n']):
            r.discarded = True
            return r
        names = [x for x in names if x[0] != 'out']      # no claim about the assertion that failed
    pd = parent_desc(sc if poison else dict(sc, poison=None))
    used = sg.vars_of(sc['ast']) + [v for v in (sg.vars_of(sc['extra'][1]) if sc.get('extra') else []) if v not in sg.vars_of(sc['ast'])]
    try:
        parent = M.build(pd)
        alone = [(n, M.build(alone_desc(sc, a))) for n, a in names]
        r.api_calls += 2 * (1 + len(names))
    except M.ApiCrash as e:
        r.crashes[e.exc_type] += 1
        r.violate('build-raised', spec=pd, **e.describe())
        return r
    nontriv = False

    def read(name):
        return M.api('get_value', parent.get_value, name)
    try:
        if sc['mode'] == 'off':
            if dense:
                sig = sc['signals']
                M.ct_evaluate(parent, sig, sc['vars'])
                for v in used:
                    r.evals += 1
                    if not eq_samples(read(v), sig[v]):
                        r.violate('input-value', var=v, got=read(v), want=sig[v], spec=pd)
                for n, mon in alone:
                    want = M.ct_evaluate(mon, sig, sc['vars'])
                    got = read(n)
                    r.evals += 1
                    fw, fg = D.from_samples(want), D.from_samples(got) if isinstance(got, list) else None
                    bad = None
                    if not fg or not fw:
                        bad = 'empty' if (bool(fg) != bool(fw)) else None
                    else:
                        vs = sg.vars_of(dict(names)[n])
                        e1 = min(sig[v][-1][0] for v in vs) if vs else fw[-1][0]
                        if fg[0][0] != fw[0][0]:
                            bad = 'start'
                        else:
                            m_ = D.compare(got, fw, fw[0][0], max(fw[0][0], e1), eqn)
                            bad = m_
                    if bad:
                        r.violate('named-value-equals-standalone', name=n, got=got, want=want, spec=pd, signals=sig, why=repr(bad))
                    if len(fw) > 1:
                        nontriv = True
            else:
                n_, data = sc['n'], sc['data']
                M.dt_evaluate(parent, common.stamps_of(sc), data)
                for v in used:
                    r.evals += 1
                    g = read(v)
                    if not (isinstance(g, list) and M.list_eq(g, data[v])):
                        r.violate('input-value', var=v, got=g, want=data[v], spec=pd)
                for n, mon in alone:
                    want = [p[1] for p in M.dt_evaluate(mon, common.stamps_of(sc), data)]
                    got = read(n)
                    r.evals += 1
                    ok = isinstance(got, list) and len(got) == n_ and all(eqn(a, b) for a, b in zip(got, want))
                    if not ok:
                        r.violate('named-value-equals-standalone', name=n, got=got, want=want, spec=pd, data=data)
                    if common.count_nontrivial(want):
                        nontriv = True
            r.sim_time += 1
        else:
            r.probes['online'] += 1
            if dense:
                sig = sc['signals']
                nb = sc['nbatches']
                rounds = []
                for k in range(nb):
                    rounds.append(dict((v, sig[v][len(sig[v]) * k // nb:len(sig[v]) * (k + 1) // nb]) for v in sc['vars']))
            else:
                rounds = list(range(sc['n']))
            for k, rd in enumerate(rounds):
                if sc.get('reset_at') == k and not poison:
                    M.api('reset', parent.reset)
                    alone = [(n, M.build(alone_desc(sc, a))) for n, a in names]
                    r.faults['reset'] += 1
                if dense:
                    M.ct_update(parent, rd, sc['vars'])
                elif poison:
                    failed = False
                    try:
                        M.dt_update(parent, common.stamps_of(sc)[rd], [(v, sc['data'][v][rd]) for v in sc['vars']] +
                                    [('z', None if rd == poison['at'] else 1.0)])
                    except M.ApiCrash:
                        if rd != poison['at']:
                            raise
                        failed = True
                        r.faults['update_raised_midway'] += 1
                    if failed:
                        # nothing is claimed about this update; the stand-alone monitors of the sub-specifications see the sample
                        for n, mon in alone:
                            M.dt_update(mon, common.stamps_of(sc)[rd], [(v, sc['data'][v][rd]) for v in sc['vars']])
                        continue
                    if rd > poison['at']:
                        r.probes['update_after_a_failed_update'] += 1
                else:
                    M.dt_update(parent, common.stamps_of(sc)[rd], [(v, sc['data'][v][rd]) for v in sc['vars']])
                d = M.state_digest(parent)
                if d:
                    r.states.add(d)
                for v in used:
                    r.evals += 1
                    g = read(v)
                    w = rd[v] if dense else sc['data'][v][rd]
                    if not (eq_samples(g, w) if dense else eqn(g, w)):
                        r.violate('input-value', var=v, step=k, got=g, want=w, spec=pd)
                for n, mon in alone:
                    if dense:
                        want = M.ct_update(mon, rd, sc['vars'])
                    else:
                        want = M.dt_update(mon, common.stamps_of(sc)[rd], [(v, sc['data'][v][rd]) for v in sc['vars']])
                    got = read(n)
                    r.evals += 1
                    if not (eq_samples(got, want) if dense else eqn(got, want)):
                        r.violate('named-value-equals-standalone', name=n, step=k, got=got, want=want, spec=pd,
                                  data=sc.get('data') or sc.get('signals'))
                        return r
                    if (not dense and want not in (float('inf'), -float('inf'))) or (dense and len(want) > 0):
                        nontriv = True
                r.sim_time += 1
                r.api_calls += 1 + len(names)
    except M.ApiCrash as e:
        r.crashes[e.exc_type] += 1
        r.violate('api-raised', spec=pd, **e.describe())
        r.obs.append(['crash', e.exc_type])
        return r
    r.obs.append([sc['kind'], len(names)])
    top = sc['top']
    refs = [x[1] for x in sg.walk(top) if x[0] == 'ref']
    for n_, a in sc['defs']:
        refs += [x[1] for x in sg.walk(a) if x[0] == 'ref']
    if len(refs) != len(set(refs)):
        r.probes['shared_subspec'] += 1
    if any(sg.refs_of(a) for _, a in sc['defs']):
        r.probes['nested_subspec'] += 1
    if sc.get('extra'):
        r.probes['unreferenced_assertion'] += 1
    if sc['pastify']:
        r.probes['pastified'] += 1
    if sc.get('iastl') and sc['kind'] in ('dt', 'ct'):
        r.probes['interface_aware_semantics'] += 1
    if dense:
        r.probes['dense_time'] += 1
    for x in sg.walk(top):
        if x[0] in ('eventually_b', 'always_b', 'until_b') and any(c[0] == 'ref' for c in sg.children(x)):
            r.probes['operand_of_bounded_future'] += 1
            break
    if nontriv:
        r.nontrivial.add('%s|%s%s|%d' % (sg.shape(sc['ast']), sc['kind'], sc['mode'], len(names)))
    return r


def shrinks(sc):
    if sc.get('poison'):
        c = copy.deepcopy(sc)
        c['poison'] = None
        yield c
    if sc.get('reset_at') is not None:
        c = copy.deepcopy(sc)
        c['reset_at'] = None
        yield c
    if sc.get('extra'):
        c = copy.deepcopy(sc)
        c['extra'] = None
        yield c
    if len(sc['defs']) > 0:
        # inline the last definition
        c = copy.deepcopy(sc)
        name, a = c['defs'][-1]
        d = {name: a}

        def sub(n):
            if n[0] == 'ref' and n[1] == name:
                return a
            return sg.with_children(n, [sub(x) for x in sg.children(n)])
        c['top'] = sub(c['top'])
        c['defs'] = [[n2, sub(a2)] for n2, a2 in c['defs'][:-1]]
        yield c
    if 'n' in sc and sc['n'] > 1:
        c = copy.deepcopy(sc)
        c['n'] = sc['n'] - 1
        c['data'] = dict((v, sc['data'][v][:-1]) for v in sc['data'])
        yield c
    if sc.get('nbatches', 1) > 1:
        c = copy.deepcopy(sc)
        c['nbatches'] = sc['nbatches'] - 1
        yield c
    if not sc['defs']:
        for a2 in sg.shrink_candidates(sc['ast']):
            if not sg.vars_of(a2):
                continue
            c = copy.deepcopy(sc)
            c['ast'] = a2
            c['top'] = a2
            if sc['mode'] == 'on' and any(x[0] in sg.FUTURE_OPS for x in sg.walk(a2)):
                c['pastify'] = True
            yield c
