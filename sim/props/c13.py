"""C13 - the sampling-violation counter counts exactly the out-of-tolerance gaps (native clock property).

Run: a sensor clock with faults produces time-stamp sequences; the fault dimension is the sequence of gap classes
{inside, below, above, on the lower/upper edge, zero (duplicate), negative (clock went back), 2P (a lost sample)}.
Per sampled configuration (period, period unit, default unit, tolerance) all class sequences up to a length bound
are enumerated, longer ones sampled; online (one stamp per update, counter read after EVERY update) and offline
(time column; offline-only class and combined class).
Oracle: RefCounter (exact rationals): number of gaps outside [P(1-tol), P(1+tol)], P in the unit of the stamps;
and the robustness outputs equal those under a perfect clock.
"""
import copy
import itertools
from fractions import Fraction

from .. import specgen as sg
from .. import monitors as M
from .. import world
from .. import units
from ..core import Result
from . import common

ID = 'C13'
LEVEL = 'fault_enumeration'
RUNS = {'quick': 96, 'thorough': 384}
ENV_OPT_OUT = ('failed_eval', 'discrete_units', 'explained_before', 'reconf')      # the statement does not say whether a second evaluate() restarts or continues the count
SIM_TIME_UNIT = 'time-stamps'
SELFTEST_RUNS = 2      # one run enumerates ~900 fault sequences (about 2 s)
SELFTEST_FRESH = 1
RUN_LIMIT_S = 180        # one run enumerates hundreds of fault sequences
RULE = ('seeded generation of (sampling period, period unit, default unit, tolerance, small past-time specification, sample '
        'values); inside each run every sequence of gap classes up to length 3 (quick) / 4 (thorough) over 8 classes is '
        'enumerated and 40/200 longer sequences (up to 12 gaps) are sampled, each for the online monitor (counter after every '
        'update) and for an offline evaluation; non-trivial = the sequence has at least one out-of-tolerance and one in-tolerance '
        'gap; distinct = distinct (gap-class sequence, configuration class)')
ASSUMPTIONS = ['RefCounter uses exact rationals on the float stamps actually supplied',
               'edge classes are generated only when period, tolerance and stamps are dyadic (exact float arithmetic); otherwise '
               'gaps keep a relative margin >= 1e-3 from the tolerance edges',
               'the count after the FIRST evaluate() of a fresh offline object is checked (the statement does not say whether a '
               'second evaluation restarts the count)', 'stamps are expressed in the default unit (spec.unit)']
REAL = common.REAL_ALL
STUBS = common.STUBS_ALL
PROBES = ['integer_stamps_above_2^53', 'episode_after_reset', 'gap_on_tolerance_edge', 'period_unit_differs_from_stamp_unit', 'more_than_one_bad_gap', 'offline_counter', 'tolerance_zero',
          'one_stamp', 'combined_class']
INTERLEAVING_MEASURE = 'distinct gap-class sequences'

CLASSES = ['in', 'in_lo', 'below', 'above', 'zero', 'back', 'lost', 'edge_lo', 'edge_hi']


def gen(rng, tier):
    exact = rng.random() < 0.5
    if exact:
        P, pu, du = rng.choice([(1, 's', None), (2, 's', 's'), (500, 'ms', 's'), (4, 'ms', 'ms'), (1000, 'ms', 's'), (250, 'ms', 's'),
                                (1, 'ms', 'us'), (8, 'us', 'us'),
                                # a period given in a finer unit than the stamps, above one stamp unit and no whole multiple of it
                                (1500, 'ms', 's'), (2500, 'us', 'ms'), (1250, 'ms', 's')])
        tol = rng.choice([0.0, 0.25, 0.5, 1.0, 0.125])
    else:
        P, pu, du = rng.choice([(1, 's', None), (1, 's', 's'), (100, 'ms', 's'), (500, 'ms', 'ms'), (10, 'us', 'us'), (3, 's', None),
                                (20, 'ms', 's'), (1, 's', 'ms'), (5, 'ns', 'ns'), (1000000, 'us', 's'), (1100, 'ms', 's'), (2500, 'ms', 's')])
        tol = rng.choice([0.1, 0.1, 0.2, 0.05, 0.3])
    nv = rng.randint(1, 2)
    vars_ = common.VARS[:nv]
    semantics = rng.choice([None, None, 'output-robustness', 'input-robustness', 'output-vacuity', 'input-vacuity'])
    # (under IA-STL semantics insensitive predicates are +-inf; iff/xor of two infinities is inf - inf: no defined value)
    ast = sg.gen_formula(rng, sg.GenCfg(vars=vars_, ops=common.PAST_OPS - {'sqrt', 'ln', 'log', 'pow', 'exp', '/'} -
                                        ({'iff', 'xor', '+', '-', '*'} if semantics else set()), max_depth=3, max_bound=2))
    maxlen = 3 if tier == 'quick' else 4
    nlong = 40 if tier == 'quick' else 200
    classes = [c for c in CLASSES if exact or not c.startswith('edge')]
    if tol == 0.0:
        classes = [c for c in classes if c not in ('in_lo', 'edge_lo', 'edge_hi')]
    longs = []
    for _ in range(nlong):
        L = rng.randint(maxlen + 1, 12)
        longs.append([rng.choice(classes) for _ in range(L)])
    data = world.gen_trace(rng, vars_, 13)
    t0 = rng.choice([0, 0, 5, 1000, 0.5]) if not exact else rng.choice([0, 0, 4, 1024, 1700000000000000000])   # epoch nanoseconds: above 2**53
    return {'period': P, 'pu': pu, 'du': du, 'tol': tol, 'exact': exact, 'vars': vars_, 'ast': ast, 'data': data,
            'maxlen': maxlen, 'classes': classes, 'longs': longs, 't0': t0,
            'online_cls': 'dt_on' if rng.random() < 0.6 else 'dt', 'offline_cls': 'dt_off' if rng.random() < 0.5 else 'dt',
            'set_sampling': True if (P, pu, tol) != (1, 's', 0.1) else rng.random() < 0.5,
            'semantics': semantics, 'reparse': rng.random() < 0.25, 'pastify': rng.random() < 0.3,
            'unit_switch': (rng.choice([u for u in ('s', 'ms', 'us') if u != (du or 's')]) if rng.random() < 0.3 else None)}


def period_in_stamp_unit(sc):
    return Fraction(sc['period'] * units.U[sc['pu']], units.U[sc['du'] or 's'])


def gap_for(cls, sc):
    """gap (Fraction) in the unit of the stamps for one class"""
    P = period_in_stamp_unit(sc)
    tol = Fraction(sc['tol']).limit_denominator(1000)
    if cls == 'in':
        return P
    if cls == 'in_lo':
        return P * (1 - tol / 2)
    if cls == 'below':
        return P * (1 - tol) / 2 if tol < 1 else None
    if cls == 'above':
        return P * (1 + tol) * 2
    if cls == 'zero':
        return Fraction(0)
    if cls == 'back':
        return -P
    if cls == 'lost':
        return 2 * P
    if cls == 'edge_lo':
        return P * (1 - tol)
    if cls == 'edge_hi':
        return P * (1 + tol)
    raise KeyError(cls)


def stamps_for(seq, sc):
    t = Fraction(sc['t0']).limit_denominator(10 ** 6)
    out = [t]
    for c in seq:
        g = gap_for(c, sc)
        if g is None:
            g = Fraction(0)
        t = t + g
        out.append(t)
    if sc['t0'] > 2 ** 53 and any(x.denominator != 1 for x in out):
        return None        # above 2**53 only integer stamps are exact; a float stamp there would test float rounding, not the counter
    fl = []
    for x in out:
        fl.append(int(x) if x.denominator == 1 else float(x))
    return fl


def ref_counts(stamps, sc):
    """RefCounter: counts after each stamp (prefix counts), exact rationals on the supplied floats"""
    P = period_in_stamp_unit(sc)
    tol = Fraction(sc['tol'])       # the float actually handed to set_sampling_period, exactly
    lo, hi = P * (1 - tol), P * (1 + tol)
    cnt = 0
    out = [0]
    margin_ok = True
    for i in range(len(stamps) - 1):
        g = Fraction(stamps[i + 1]) - Fraction(stamps[i])
        if g < lo or g > hi:
            cnt += 1
        for e in (lo, hi):
            if g != e and P != 0 and abs(g - e) < P * Fraction(1, 1000):
                margin_ok = False
        out.append(cnt)
    return out, margin_ok


def spec_desc(sc, cls, online=False):
    if sc.get('semantics'):
        cls = 'dt'         # only the combined class takes a semantics argument (the online-only / offline-only classes are STANDARD)
    nt = {'period': sc['period'], 'pu': sc['pu'], 'du': sc['du'], 'style': 'plain'}
    d = {'cls': cls, 'vars': common.var_decls(sc['vars']),
         'spec': 'out = ' + sg.to_text(sc['ast'], None, units.bounds_printer(nt, None)) + ';'}
    if sc['du']:
        d['unit'] = sc['du']
    if sc.get('set_sampling', True):
        d['sampling'] = [sc['period'], sc['pu'], sc['tol']]
    if sc.get('semantics'):
        d['semantics'] = sc['semantics']      # the counter does not depend on the (interface-aware) semantics of the monitor
    if sc.get('pastify') and online:
        d['pastify'] = True       # pastify() of a past-time specification must change nothing, the counter included
    if sc.get('unit_switch') and online and not sc.get('reparse') and not any(x[0] in sg.TUN + sg.TBIN for x in sg.walk(sc['ast'])):
        # the monitor ran under ANOTHER default unit before (two updates one period apart, in that unit), then spec.unit was
        # changed and the monitor reset: the period must now be taken in the new unit of the stamps
        u1 = sc['unit_switch']
        P1 = Fraction(sc['period'] * units.U[sc['pu']], units.U[u1])
        st = [0, (int(P1) if P1.denominator == 1 else float(P1))]
        d['prior'] = {'unit': u1, 'sampling': d.get('sampling'), 'reset_after': True,
                      'updates': [[st[i], [(v, sc['data'][v][i]) for v in sc['vars']]] for i in range(2)]}
    if sc.get('reparse'):
        d['prior'] = {'spec': 'out = (%s) >= (0.0);' % sc['vars'][0], 'unit': d.get('unit'), 'sampling': d.get('sampling')}   # parsed twice (new text)
    return d


def sequences(sc):
    for L in range(0, sc['maxlen'] + 1):
        for seq in itertools.product(sc['classes'], repeat=L):
            yield list(seq)
    for s in sc['longs']:
        yield list(s)


def run(sc):
    r = Result()
    vars_, data = sc['vars'], sc['data']
    if sc.get('only_seq') is not None:
        seqs = [sc['only_seq']]
    else:
        seqs = sequences(sc)
    perfect_out = {}
    for seq in seqs:
        if any(gap_for(c, sc) is None for c in seq):
            continue
        stamps = stamps_for(seq, sc)
        if stamps is None:
            continue
        want, margin_ok = ref_counts(stamps, sc)
        exact_edges = sc['exact']
        if not margin_ok and not exact_edges:
            continue
        n = len(stamps)
        r.interleavings.add(','.join(seq))
        for c in seq:
            r.faults['gap_' + c] += 1
        # ---- online
        try:
            mon = M.build(spec_desc(sc, sc['online_cls'], online=True))
            outs = []
            for i in range(n):
                o = M.dt_update(mon, stamps[i], [(v, data[v][i]) for v in vars_])
                outs.append(o)
                r.evals += 1
                c = mon.sampling_violation_counter
                if c != want[i]:
                    r.violate('online-counter', seq=seq, stamps=stamps, step=i, got=c, want=want[i], config=_cfg(sc))
                    return r
            r.api_calls += n + 2
        except M.ApiCrash as e:
            r.crashes[e.exc_type] += 1
            r.violate('online-raised', seq=seq, stamps=stamps, config=_cfg(sc), **e.describe())
            return r
        # a restart: reset() and a second episode on the same monitor object; the count restarts with the first stamp
        if len(seq) >= 4 and sc.get('only_seq') is None or (sc.get('only_seq') is not None and sc.get('with_reset')):
            try:
                k = len(seq) // 2
                M.api('reset', mon.reset)
                r.faults['reset'] += 1
                r.probes['episode_after_reset'] += 1
                sc2 = dict(sc, t0=sc['t0'] + (1000 if sc['exact'] else 977))
                st2 = stamps_for(seq[k:], sc2)
                want2, ok2 = ref_counts(st2, sc2) if st2 is not None else (None, False)
                if st2 is not None and (ok2 or sc['exact']):
                    for i in range(len(st2)):
                        M.dt_update(mon, st2[i], [(v, data[v][i]) for v in vars_])
                        r.evals += 1
                        c = mon.sampling_violation_counter
                        if c != want2[i]:
                            r.violate('online-counter-after-reset', seq=seq, first_episode=stamps, second_episode=st2, step=i, got=c,
                                      want=want2[i], config=_cfg(sc))
                            return r
            except M.ApiCrash as e:
                r.crashes[e.exc_type] += 1
                r.violate('online-raised', seq=seq, stamps=stamps, config=_cfg(sc), **e.describe())
                return r
        # outputs unaffected by jitter
        if n not in perfect_out:
            try:
                pm = M.build(spec_desc(sc, sc['online_cls'], online=True))
                ps = [i * float(period_in_stamp_unit(sc)) for i in range(n)]
                perfect_out[n] = [M.dt_update(pm, ps[i], [(v, data[v][i]) for v in vars_]) for i in range(n)]
            except M.ApiCrash as e:
                r.crashes[e.exc_type] += 1
                r.violate('online-raised', seq='perfect', config=_cfg(sc), **e.describe())
                return r
        r.evals += 1
        if not all(M.num_eq(a, b) or (a != a and b != b) for a, b in zip(outs, perfect_out[n])):
            r.violate('outputs-unaffected-by-jitter', seq=seq, stamps=stamps, got=outs, want=perfect_out[n], config=_cfg(sc))
            return r
        # ---- offline (first evaluation of a fresh object)
        try:
            off = M.build(spec_desc(sc, sc['offline_cls']))
            res = M.dt_evaluate(off, stamps, dict((v, data[v][:n]) for v in vars_))
            r.api_calls += 3
            r.evals += 1
            c = off.sampling_violation_counter
            if c != want[-1]:
                r.violate('offline-counter', seq=seq, stamps=stamps, got=c, want=want[-1], config=_cfg(sc), cls=sc['offline_cls'])
                return r
            vals = [p[1] for p in res]
            if not all(M.num_eq(a, b) or (a != a and b != b) for a, b in zip(vals, perfect_out[n])):
                r.violate('outputs-unaffected-by-jitter', seq=seq, stamps=stamps, got=vals, want=perfect_out[n], config=_cfg(sc),
                          side='offline')
                return r
        except M.ApiCrash as e:
            r.crashes[e.exc_type] += 1
            r.violate('offline-raised', seq=seq, stamps=stamps, config=_cfg(sc), **e.describe())
            return r
        r.sim_time += n
        bad = want[-1]
        if 0 < bad < len(seq):
            r.nontrivial.add(','.join(seq) + '|' + _cfgclass(sc))
        if bad > 1:
            r.probes['more_than_one_bad_gap'] += 1
        if any(c.startswith('edge') for c in seq):
            r.probes['gap_on_tolerance_edge'] += 1
        if n == 1:
            r.probes['one_stamp'] += 1
        r.probes['offline_counter'] += 1
    r.obs.append([sc['period'], sc['pu'], sc['du'], sc['tol']])
    if sc['t0'] > 2 ** 53:
        r.probes['integer_stamps_above_2^53'] += 1
    if (sc['du'] or 's') != sc['pu']:
        r.probes['period_unit_differs_from_stamp_unit'] += 1
    if sc['tol'] == 0.0:
        r.probes['tolerance_zero'] += 1
    if 'dt' in (sc['online_cls'], sc['offline_cls']):
        r.probes['combined_class'] += 1
    return r


def _cfg(sc):
    return {'period': sc['period'], 'pu': sc['pu'], 'du': sc['du'], 'tol': sc['tol'], 'online_cls': sc['online_cls'],
            'offline_cls': sc['offline_cls'], 'set_sampling': sc.get('set_sampling', True)}


def _cfgclass(sc):
    return '%s%s/%s/%s' % (sc['period'], sc['pu'], sc['du'] or '-', sc['tol'])


def shrinks(sc):
    # first pin the failing sequence, then shorten it
    if sc.get('only_seq') is None:
        for seq in sequences(sc):
            c = copy.deepcopy(sc)
            c['only_seq'] = seq
            c['longs'] = []
            c['with_reset'] = len(seq) >= 4
            yield c
        return
    seq = sc['only_seq']
    for i in range(len(seq)):
        c = copy.deepcopy(sc)
        c['only_seq'] = seq[:i] + seq[i + 1:]
        yield c
    for i, x in enumerate(seq):
        if x != 'in':
            c = copy.deepcopy(sc)
            c['only_seq'] = seq[:i] + ['in'] + seq[i + 1:]
            yield c
    if sc['ast'][0] != 'var':
        c = copy.deepcopy(sc)
        c['ast'] = ['var', sc['vars'][0]]
        yield c
    if sc['t0'] != 0:
        c = copy.deepcopy(sc)
        c['t0'] = 0
        yield c
