"""C09 - modular specifications are equivalent to their inlined form.

Run: the generator extracts random sub-trees (stateful ones preferred, referenced 1-3 times, nested) into named
sub-specifications (add_sub_spec or several assertions in one text) and turns literals and interval bounds into
declared constants. The modular and the inlined specification are hosted as two real monitors of the same kind
(all four kinds, online ones also pastified) and fed the same simulated stream under the same schedule
(step by step in discrete time, chunked in dense time).
Oracle: identical outputs at every step (step functions on the covered span in dense time).
"""
import copy
import random

import json

from .. import specgen as sg
from .. import monitors as M
from .. import world
from ..core import Result
from ..ref import dense as D
from . import common

ID = 'C09'
LEVEL = 'exploration'
RUNS = {'quick': 40000, 'thorough': 250000}
SIM_TIME_UNIT = 'updates / evaluations'
RULE = ('seeded generation of (specification, decomposition into 1-3 named sub-specifications and 0-3 declared constants incl. '
        'constants used as interval bounds, monitor kind, data, schedule); every update is a checked history; non-trivial = the '
        'inlined output is finite somewhere and not constant; distinct = distinct (operator skeleton, kind, decomposition shape)')
ASSUMPTIONS = ['both sides are real monitors of the same kind fed the same stream', 'pastified monitors are compared from the horizon on (the warm-up outputs are specified by no property; a declared negative constant is a Constant node, an inlined negative literal a Negate node, and only operator nodes are delayed)', 'dense-time outputs compared as step functions',
               'scenarios whose reference value is undefined (NaN/overflow) are discarded']
REAL = common.REAL_ALL
STUBS = common.STUBS_ALL
INTERLEAVING_MEASURE = 'distinct (monitor kind, mode, number of updates or batches) tuples'
PROBES = ['stateful_subspec', 'subspec_referenced_twice', 'nested_subspec', 'constant_used', 'constant_as_bound', 'pastified',
          'online', 'dense_time', 'several_assertions_in_one_text', 'bounds_are_declared_constants_below_1e-6', 'interface_aware_semantics']


def gen(rng, tier):
    kind = rng.choice(['dt_off', 'dt_on', 'ct_off', 'ct_on', 'dt', 'ct'])
    dense = kind.startswith('ct')
    mode = {'dt_off': 'off', 'ct_off': 'off', 'dt_on': 'on', 'ct_on': 'on'}.get(kind) or rng.choice(['off', 'on'])
    nv = rng.randint(1, 3)
    vars_ = common.VARS[:nv]
    future = rng.random() < 0.4
    if mode == 'off':
        ops = common.DENSE_OFFLINE_OPS if dense else set(sg.ALL_OPS)
    elif dense:
        ops = (set(common.DENSE_PAST_OPS) | {'eventually_b', 'always_b'}) - {'log'} if future else set(common.DENSE_PAST_OPS)
    else:
        ops = (set(common.PAST_OPS) | {'eventually_b', 'always_b', 'until_b', 'unless_b', 'next'}) - {'log'} if future else set(common.PAST_OPS)   # log: F08
    precise = rng.random() < 0.15
    for _ in range(100):
        cfg = sg.GenCfg(vars=vars_, ops=ops, max_depth=rng.randint(3, 5), max_bound=rng.choice([2, 4]), p_reuse=rng.choice([0.1, 0.4]), p_near=rng.choice([0.0, 0.0, 0.5]))
        if precise:
            cfg.lattice = sg.LATTICE + [1.2345678, 0.1234567891, 3.14159265, 1234567.25, 2.0000001]
        ast = sg.gen_formula(rng, cfg)
        if sg.size(ast) >= 4 and sg.vars_of(ast) and not (mode == 'on' and common.f08_blind(ast)):
            break
    defs, top = sg.modularize(rng, ast, max_subs=3)
    extra_def = None
    if rng.random() < 0.2 and not future:
        # a further named requirement that the main assertion does not use, placed somewhere among the sub-specifications
        extra_def = [rng.randint(0, len(defs)), sg.gen_formula(rng, sg.GenCfg(vars=vars_, ops=ops, max_depth=2, max_bound=2))]
    if rng.random() < 0.15 and top[0] != 'ref' and len(defs) < 4:
        # the main assertion only gives a name of its own to a sub-specification: 'out = p;'
        nm = [n_ for n_ in ('p1', 'p2', 'p3', 'p4') if n_ not in [d_[0] for d_ in defs]][0]
        defs = defs + [[nm, top]]
        top = ['ref', nm]
        if extra_def is None and rng.random() < 0.6 and not future:
            extra_def = [len(defs), sg.gen_formula(rng, sg.GenCfg(vars=vars_, ops=ops, max_depth=2, max_bound=2))]
    sem, io = None, {}
    if kind in ('dt', 'ct') and rng.random() < 0.4:
        # interface-aware semantics (only the combined classes take one): modular and inlined form get the same declarations
        sem = rng.choice(['output-robustness', 'input-robustness', 'output-vacuity', 'input-vacuity'])
        io = dict((v, rng.choice(['input', 'output'])) for v in vars_ if rng.random() < 0.8)
        if rng.random() < 0.3 and nv >= 2 and not (mode == 'on' and future):
            # directed: a positive arithmetic sub-specification used as first argument of log/pow (the other argument over
            # another variable) and again in a second predicate
            x_, y_ = rng.sample(vars_, 2)
            pdef = ['+', ['abs', ['var', x_]], ['const', 2.0]]
            other = ['+', ['abs', ['var', y_]], ['const', 2.0]]
            f_ = rng.choice(['log', 'pow', 'log'])

            def mk(pp):
                q1 = ['pred', rng.choice(['>=', '<=']), [f_, pp, other], ['const', rng.choice([1.0, 2.0, 0.5])]]
                q2 = ['pred', rng.choice(['>=', '<=']), pp, ['const', rng.choice([3.0, 2.5, 4.0])]]
                return [rng.choice(['or', 'and', 'implies']), q1, q2] if rng.random() < 0.7 else [rng.choice(['or', 'and']), q2, q1]
            st_ = rng.getstate()
            ast = mk(pdef)
            rng.setstate(st_)
            top = mk(['ref', 'p1'])
            defs = [['p1', pdef]]
        elif rng.random() < 0.35 and not (mode == 'on' and future):
            # directed (shared with C06): an arithmetic sub-specification used by several predicates, also as an operand of another
            # arithmetic operator next to a variable of the other i/o kind
            t1, top = common.gen_shared_arith(rng, vars_, mode)
            defs = [['p1', t1]]
            ast = sg.inline(defs, top)
            io = dict((v, rng.choice(['input', 'output'])) for v in vars_)
    if rng.random() < 0.12:
        # an alias sub-specification: a bare constant ('q1 = 3.0;') or a bare variable ('q1 = a;') with a name of its own
        defs, top = sg.add_alias(rng, defs, top, 'q1')
    # constants: replace some literals by declared constants
    consts = {}
    lits = sorted(set(x[1] for n, a in defs + [['', top]] for x in sg.walk(a) if x[0] == 'const'))
    rng.shuffle(lits)
    for i, v in enumerate(lits[:rng.randint(0, 3)]):
        consts['k%d' % (i + 1)] = v
    inv = dict((v, k) for k, v in consts.items())

    def cst(n):
        if n[0] == 'const' and n[1] in inv:
            return ['ref', inv[n[1]]]
        return sg.with_children(n, [cst(c) for c in sg.children(n)])
    defs_c = [[n, cst(a)] for n, a in defs]
    top_c = cst(top)
    # constants as interval bounds (plain numbers in the default unit; dense bounds are quarter units)
    bconsts = {}
    use_b = rng.random() < 0.35

    fine = dense and rng.random() < 0.1      # time axis in microseconds, bounds = declared constants given in seconds (1e-7 resolution)

    def bp(lo, hi, sp):
        def one(q):
            if fine:
                if q == 0:
                    return '0'
                bconsts['T%d' % q] = sg.fmt_num(sg.Fraction(q, 4) / 10 ** 6)
                return 'T%d s' % q
            val = sg.fmt_num(sg.Fraction(q, 4)) if dense else str(q)
            if use_b and rng.random() < 0.6:
                name = 'b%d' % q
                bconsts[name] = val
                return name
            return val
        return '[' + one(lo) + sp.sep() + one(hi) + ']'
    sp = sg.Spelling(rng)
    subs = ['%s = %s;' % (n, sg.to_text(a, sp, bp)) for n, a in defs_c]
    if extra_def is not None:
        subs.insert(min(extra_def[0], len(subs)), 'x9 = %s;' % sg.to_text(extra_def[1], sp, (common.dense_bounds if dense else None)))
    toptext = 'out = ' + sg.to_text(top_c, sp, bp) + ';'
    pastify = mode == 'on' and (any(x[0] in sg.FUTURE_OPS for x in sg.walk(ast)) or rng.random() < 0.1)
    if sem and not common.iastl_safe(ast):
        sem, io = None, {}      # iff / xor or arithmetic over +-inf predicates: inf - inf, outside the numeric envelope (sweep seed 4, DESIGN 8.2)
    sc = {'kind': kind, 'mode': mode, 'vars': vars_, 'ast': ast, 'defs': defs, 'top': top, 'subs_text': subs, 'top_text': toptext,
          'consts': dict((k, repr(float(v))) for k, v in consts.items()), 'bconsts': bconsts, 'pastify': bool(pastify),
          'declare': rng.random() < 0.5, 'via': rng.choice(['add_sub_spec', 'text']), 'const_numeric': rng.random() < 0.4, 'fine': fine,
          'sem': sem, 'io': io}
    if dense:
        sc['signals'] = dict((v, world.gen_dense_signal(rng, rng.randint(2, 7), start_q=0, max_gap_q=4)[0]) for v in vars_)
        sc['nbatches'] = rng.randint(1, 4)
    else:
        sc['n'] = rng.randint(1, 10)
        sc['data'] = world.gen_trace(rng, vars_, sc['n'])
        common.add_clock(rng, sc)
    if mode == 'off' and rng.random() < 0.3:
        # the same modular object is then used for a second, different log
        if dense:
            sc['again'] = dict((v, world.gen_dense_signal(rng, rng.randint(2, 7), start_q=0, max_gap_q=4)[0]) for v in vars_)
        else:
            n2 = rng.choice([1, 2, sc['n'], sc['n'] + 1, rng.randint(1, 10)])
            sc['again'] = {'n': n2, 'data': world.gen_trace(rng, vars_, n2)}
    return sc


ENVELOPE_RULES = ['memory-past-above-delayed / partial-function-over-delayed (F08, F08b): a declared constant is a Constant node, its '
                  'literal -2.0 is Negate(Constant); only the latter is delayed by pastify(), and in the F08 region the warm-up of the '
                  'delayed operand stays visible after the horizon; narrowed to unbounded memory (bounded memory: compared from horizon + warmup_extra)']


def envelope(sc):
    return common.f08_blind(sc['ast']) if sc.get('pastify') else []


def modular_desc(sc):
    desc = {'cls': sc['kind'], 'vars': common.var_decls(sc['vars']), 'pastify': sc['pastify']}
    if sc.get('sem'):
        desc['semantics'] = sc['sem']
        desc['io'] = dict(sc.get('io') or {})
    if sc.get('subs_text') is not None:
        subs, top = sc['subs_text'], sc['top_text']
        cs = [[k, 'float', (float(sc['consts'][k]) if sc.get('const_numeric') else sc['consts'][k])] for k in sorted(sc['consts'])] + \
             [[k, 'float', sc['bconsts'][k]] for k in sorted(sc['bconsts'])]
    else:
        dense = sc['kind'].startswith('ct')
        bp = common.dense_bounds if dense else None
        subs = ['%s = %s;' % (n, sg.to_text(a, None, bp)) for n, a in sc['defs']]
        top = 'out = ' + sg.to_text(sc['top'], None, bp) + ';'
        cs = []
    desc['consts'] = cs
    if sc.get('fine'):
        desc['unit'] = 'us'
    if sc.get('declare'):
        desc['vars'] = desc['vars'] + [[n, 'float'] for n, _ in sc['defs']]
    if sc.get('via') == 'text':
        desc['spec'] = '\n'.join(subs) + '\n' + top
    else:
        desc['subspecs'] = subs
        desc['spec'] = top
    return desc


def inlined_desc(sc):
    dense = sc['kind'].startswith('ct')
    text = common.dense_text(sc['ast']) if dense else 'out = ' + sg.to_text(sc['ast']) + ';'
    d = {'cls': sc['kind'], 'vars': common.var_decls(sc['vars']), 'spec': text, 'pastify': sc['pastify']}
    if sc.get('sem'):
        d['semantics'] = sc['sem']
        d['io'] = dict(sc.get('io') or {})
    if sc.get('fine'):
        d['unit'] = 'us'
        if sc.get('subs_text') is not None:
            # the inlined form writes the same bounds as literals in seconds
            def lit(lo, hi, sp):
                def one(q):
                    return '0' if q == 0 else sg.fmt_num(sg.Fraction(q, 4) / 10 ** 6) + 's'
                return '[' + one(lo) + ':' + one(hi) + ']'
            d['spec'] = 'out = ' + sg.to_text(sc['ast'], None, lit) + ';'
    return d


def eqn(a, b):
    return M.num_eq(a, b) or (a != a and b != b)


def run(sc):
    r = Result()
    if sc.get('sem') and not common.iastl_safe(sc['ast']):
        r.discarded = True      # inf - inf under an interface-aware semantics: outside the numeric envelope (DESIGN 3.6)
        return r
    r.faults.update(sc.get('fired') or {})
    r.interleavings.add('%s|%s|%s' % (sc.get('kind'), sc.get('mode', ''), sc.get('nbatches') or sc.get('n')))
    if sc.get('nbatches', 1) > 1:
        r.faults['batch_split'] += sc['nbatches'] - 1
    dense = sc['kind'].startswith('ct')
    if not common.ref_defined([sc['ast']], dense, sc['signals'] if dense else sc['data'], sc.get('n')):
        r.discarded = True
        return r
    md, idesc = modular_desc(sc), inlined_desc(sc)
    try:
        mm, mi = M.build(md), M.build(idesc)
        r.api_calls += 4
    except M.ApiCrash as e:
        r.crashes[e.exc_type] += 1
        r.violate('build-raised', modular=md, inlined=idesc, **e.describe())
        return r
    nontriv = False
    try:
        if sc['mode'] == 'off':
            if dense:
                sig = sc['signals']
                a = M.ct_evaluate(mm, sig, sc['vars'])
                b = M.ct_evaluate(mi, sig, sc['vars'])
                r.obs.append(b)
                fa, fb = D.from_samples(a), D.from_samples(b)
                r.evals += 1
                used = sg.vars_of(sc['ast'])
                e1 = min(sig[v][-1][0] for v in used)
                bad = None
                if bool(fa) != bool(fb):
                    bad = 'empty'
                elif fa:
                    if fa[0][0] != fb[0][0]:
                        bad = 'start'
                    else:
                        bad = D.compare(a, fb, fb[0][0], max(fb[0][0], e1), eqn)
                if bad:
                    r.violate('modular-equals-inlined', modular=md, inlined=idesc, signals=sig, got=a, want=b, why=repr(bad))
                nontriv = len(fb) > 1
            else:
                n, data = sc['n'], sc['data']
                a = [p[1] for p in M.dt_evaluate(mm, common.stamps_of(sc), data)]
                b = [p[1] for p in M.dt_evaluate(mi, common.stamps_of(sc), data)]
                r.obs.append(b)
                r.evals += 1
                if len(a) != len(b) or not all(eqn(x, y) for x, y in zip(a, b)):
                    r.violate('modular-equals-inlined', modular=md, inlined=idesc, data=data, got=a, want=b)
                nontriv = common.count_nontrivial(b)
            r.sim_time += 1
            again = sc.get('again')
            if again and common.ref_defined([sc['ast']], dense, again if dense else again['data'], None if dense else again['n']):
                r.faults['object_reused_for_second_log'] += 1
                mi2 = M.build(idesc)
                r.evals += 1
                if dense:
                    a = M.ct_evaluate(mm, again, sc['vars'])
                    b = M.ct_evaluate(mi2, again, sc['vars'])
                    fa, fb = D.from_samples(a), D.from_samples(b)
                    e1 = min(again[v][-1][0] for v in sg.vars_of(sc['ast']))
                    bad = None
                    if bool(fa) != bool(fb):
                        bad = 'empty'
                    elif fa:
                        bad = 'start' if fa[0][0] != fb[0][0] else D.compare(a, fb, fb[0][0], max(fb[0][0], e1), eqn)
                    if bad:
                        r.violate('modular-equals-inlined', second_log=True, modular=md, inlined=idesc, first=sc['signals'], signals=again,
                                  got=a, want=b, why=repr(bad))
                else:
                    st = list(range(again['n']))
                    a = [p[1] for p in M.dt_evaluate(mm, st, again['data'])]
                    b = [p[1] for p in M.dt_evaluate(mi2, st, again['data'])]
                    if len(a) != len(b) or not all(eqn(x, y) for x, y in zip(a, b)):
                        r.violate('modular-equals-inlined', second_log=True, modular=md, inlined=idesc, first=sc['data'], data=again['data'],
                                  got=a, want=b)
                r.obs.append(b)
        else:
            r.probes['online'] += 1
            if dense:
                sig = sc['signals']
                nb = sc['nbatches']
                outa, outb = [], []
                for k in range(nb):
                    rd = dict((v, sig[v][len(sig[v]) * k // nb:len(sig[v]) * (k + 1) // nb]) for v in sc['vars'])
                    outa += M.ct_update(mm, rd, sc['vars'])
                    outb += M.ct_update(mi, rd, sc['vars'])
                    r.sim_time += 1
                    for m_ in (mm, mi):
                        d = M.state_digest(m_)
                        if d:
                            r.states.add(d)
                r.obs.append(outb)
                r.evals += 1
                fa, fb = D.from_samples(outa), D.from_samples(outb)
                bad = None
                if not D.nondecreasing(outa):
                    bad = 'decreasing stamps'
                elif bool(fa) != bool(fb):
                    bad = 'empty'
                elif fa:
                    lo, hi = max(fa[0][0], fb[0][0]), min(fa[-1][0], fb[-1][0])
                    if sc['pastify']:
                        # warm-up outputs are not specified (C03); inside the F08 region: until the warm-up left every memory
                        lo = max(lo, (sg.horizon(sc['ast']) + common.warmup_extra(sc['ast'])) * common.DENSE_TICK)
                    if fa[0][0] != fb[0][0] or fa[-1][0] != fb[-1][0]:
                        bad = 'span'
                    elif lo <= hi:
                        for t in D.check_points([fa, fb], lo, hi):
                            if not eqn(D.at(fa, t), D.at(fb, t)):
                                bad = (t, D.at(fa, t), D.at(fb, t))
                                break
                if bad:
                    r.violate('modular-equals-inlined', modular=md, inlined=idesc, signals=sig, batches=nb, got=outa, want=outb,
                              why=repr(bad))
                nontriv = len(fb) > 1
            else:
                outs = []
                for i in range(sc['n']):
                    inp = [(v, sc['data'][v][i]) for v in sc['vars']]
                    a = M.dt_update(mm, common.stamps_of(sc)[i], inp)
                    b = M.dt_update(mi, common.stamps_of(sc)[i], inp)
                    outs.append(b)
                    r.evals += 1
                    r.sim_time += 1
                    for m_ in (mm, mi):
                        d = M.state_digest(m_)
                        if d:
                            r.states.add(d)
                    if sc['pastify'] and i < sg.horizon(sc['ast']) + common.warmup_extra(sc['ast']):
                        continue      # warm-up of a pastified monitor: outputs before the horizon are not specified (C03)
                    if not eqn(a, b):
                        r.violate('modular-equals-inlined', modular=md, inlined=idesc, data=sc['data'], step=i, got=a, want=b)
                        break
                r.obs.append(outs)
                nontriv = common.count_nontrivial(outs)
    except M.ApiCrash as e:
        r.crashes[e.exc_type] += 1
        r.violate('api-raised', modular=md, inlined=idesc, **e.describe())
        r.obs.append(['crash', e.exc_type])
        return r
    refs = [x[1] for x in sg.walk(sc['top']) if x[0] == 'ref']
    for n_, a in sc['defs']:
        refs += [x[1] for x in sg.walk(a) if x[0] == 'ref']
    if len(refs) != len(set(refs)):
        r.probes['subspec_referenced_twice'] += 1
    if any(sg.refs_of(a) for _, a in sc['defs']):
        r.probes['nested_subspec'] += 1
    if any(any(y[0] in sg.TEMPORAL for y in sg.walk(a)) for _, a in sc['defs']):
        r.probes['stateful_subspec'] += 1
    if sc.get('consts') and sc.get('subs_text') is not None:
        r.probes['constant_used'] += 1
    if sc.get('bconsts') and sc.get('subs_text') is not None:
        r.probes['constant_as_bound'] += 1
    if sc['pastify']:
        r.probes['pastified'] += 1
    if sc.get('sem'):
        r.probes['interface_aware_semantics'] += 1
    if sc.get('fine') and sc.get('subs_text') is not None:
        r.probes['bounds_are_declared_constants_below_1e-6'] += 1
    if dense:
        r.probes['dense_time'] += 1
    if sc.get('via') == 'text':
        r.probes['several_assertions_in_one_text'] += 1
    if nontriv:
        r.nontrivial.add('%s|%s%s|%d/%d' % (sg.shape(sc['ast']), sc['kind'], sc['mode'], len(sc['defs']), len(sc.get('consts') or {})))
    return r


def shrinks(sc):
    if sc.get('again'):
        c = copy.deepcopy(sc)
        c['again'] = None
        yield c
    if sc.get('subs_text') is not None:
        c = copy.deepcopy(sc)
        c['subs_text'] = None
        c['top_text'] = None
        c['consts'] = {}
        c['bconsts'] = {}
        yield c
        return
    if len(sc['defs']) > 1:
        c = copy.deepcopy(sc)
        name, a = c['defs'][-1]

        def sub(n):
            if n[0] == 'ref' and n[1] == name:
                return a
            return sg.with_children(n, [sub(x) for x in sg.children(n)])
        c['top'] = sub(c['top'])
        c['defs'] = [[n2, sub(a2)] for n2, a2 in c['defs'][:-1]]
        yield c
    if 'n' in sc and sc['n'] > 1:
        c = copy.deepcopy(sc)
        c['n'] = sc['n'] - 1
        c['data'] = dict((v, sc['data'][v][:-1]) for v in sc['data'])
        yield c
    if sc.get('nbatches', 1) > 1:
        c = copy.deepcopy(sc)
        c['nbatches'] = sc['nbatches'] - 1
        yield c
    if len(sc['defs']) == 1:
        # shrink inside the single definition and in the top formula, keeping the reference
        name, a = sc['defs'][0]
        for a2 in sg.shrink_candidates(a):
            c = copy.deepcopy(sc)
            c['defs'] = [[name, a2]]
            c['ast'] = sg.inline(c['defs'], c['top'])
            if not sg.vars_of(c['ast']):
                continue
            if sc['mode'] == 'on' and any(x[0] in sg.FUTURE_OPS for x in sg.walk(c['ast'])):
                c['pastify'] = True
            yield c
        for t2 in sg.shrink_candidates(sc['top']):
            if not any(x[0] == 'ref' for x in sg.walk(t2)):
                continue
            c = copy.deepcopy(sc)
            c['top'] = t2
            c['ast'] = sg.inline(c['defs'], t2)
            if sc['mode'] == 'on' and any(x[0] in sg.FUTURE_OPS for x in sg.walk(c['ast'])):
                c['pastify'] = True
            yield c
