"""C07 - robustness sign and magnitude are sound with respect to Boolean satisfaction.

Run: an iff/xor-free, properly sorted specification on one of the four monitors (online ones on past formulas,
stepped / chunked). Oracle 1: wherever the monitor reports rho > 0 (< 0) RefBool says satisfied (violated);
nothing is claimed at rho = 0. RefBool is a three-valued (Kleene) Boolean STL evaluator: a predicate is true when
it strictly holds, false when it is strictly violated, unknown on the boundary.
Fault injection (oracle 2): when every predicate compares one variable with a constant, a noisy sensor perturbs
EVERY sample by |eps| < 0.999*|rho(t)| - adversarially toward each threshold, all up, all down, and at random;
RefBool on the perturbed trace gives the same verdict at t, and so does the sign of the real monitor re-run on it.
"""
import copy

import json

from .. import specgen as sg
from .. import monitors as M
from .. import world
from ..core import Result
from ..ref import dense as D
from ..ref.discrete import pred_sat, eval_discrete, RefError, pred_value
from . import common

ID = 'C07'
LEVEL = 'exploration'
RUNS = {'quick': 12000, 'thorough': 100000}
SIM_TIME_UNIT = 'samples / dense time units'
RULE = ('seeded generation of (iff/xor-free sorted specification, monitor kind, data); for up to 4 instants with finite non-zero '
        'robustness the noise fault is injected 6 + 2*(#predicates) times (adversarial toward each threshold, all up, all down, '
        'random); non-trivial = some reported robustness is finite and non-zero; distinct = distinct (operator skeleton, kind, '
        'sign pattern of the checked instants)')
ASSUMPTIONS = ['RefBool = Kleene evaluation of the reference evaluators over {-1, 0, +1} (independent of rtamt)',
               'noise bounded by 0.999*|rho| (strictly below |rho| as the statement demands)',
               'perturbation clause only for specifications whose predicates are variable-vs-constant',
               'online kinds: past-time formulas; dense: sensors start at 0']
REAL = common.REAL_ALL
STUBS = common.STUBS_ALL
ENVELOPE_RULES = ['memory-past-above-delayed (F08), narrowed: only a past operator with UNBOUNDED memory (once, historically, since) above a sub-formula with horizon > 0 is excluded; with bounded memory m (prev/s_prev/rise/fall: 1, bounded operators: their upper bound, summed along nesting) the comparison starts m updates after the horizon (common.warmup_extra)']
PROBES = ['interface_aware_semantics', 'pastified', 'positive_verdict', 'negative_verdict', 'zero_robustness_no_claim', 'perturbation_clause', 'nested_not_or_implies',
          'dense_time', 'online', 'modular_shared_delays', 'same_numerals_different_unit']
INF = float('inf')


def gen(rng, tier):
    kind = rng.choice(['dt_off', 'dt_on', 'ct_off', 'ct_on', 'dt', 'ct'])
    dense = kind.startswith('ct')
    mode = {'dt_off': 'off', 'ct_off': 'off', 'dt_on': 'on', 'ct_on': 'on'}.get(kind) or rng.choice(['off', 'on'])
    nv = rng.randint(1, 3)
    vars_ = common.VARS[:nv]
    if mode == 'off':
        ops = common.DENSE_OFFLINE_OPS if dense else set(sg.ALL_OPS)
    else:
        ops = common.DENSE_PAST_OPS if dense else common.PAST_OPS
    future = (not dense) and mode == 'on' and rng.random() < 0.4
    if future:
        ops = set(ops) | {'eventually_b', 'always_b', 'until_b', 'unless_b', 'next'}
    ops = set(ops) - {'iff', 'xor'}
    pvc = rng.random() < 0.6
    for _ in range(100):
        ast = sg.gen_formula(rng, sg.GenCfg(vars=vars_, ops=ops, max_depth=rng.randint(2, 5), max_bound=rng.choice([2, 4]),
                                            strict_sorts=True, pred_var_const=pvc, p_reuse=rng.choice([0.0, 0.2])))
        if sg.vars_of(ast) and ast[0] not in ('var', 'const') and ast[0] not in sg.TERM_UN + sg.TERM_BIN and not (mode == 'on' and common.f08_blind(ast)):
            break
    near = rng.random() < 0.15
    if near:
        # two requirements on the same quantity whose thresholds differ in a late decimal (samples are moved between them below)
        ast = sg.add_near_duplicate(rng, ast)
    if (not dense) and mode == 'on' and rng.random() < 0.3:
        # directed: a pastified bounded-future operator over variable-vs-constant predicates (magnitude errors of the
        # delayed operators only show under the noise clause)
        def pr():
            return ['pred', rng.choice(['>=', '<=', '>', '<']), ['var', rng.choice(vars_)], ['const', rng.choice(sg.LATTICE)]]
        lo = rng.randint(0, 2)
        hi = lo + rng.randint(1, 3)
        op = rng.choice(['until_b', 'until_b', 'eventually_b', 'always_b'])
        core_ = [op, lo, hi, pr(), pr()] if op == 'until_b' else [op, lo, hi, pr()]
        if rng.random() < 0.3:
            # ... below a bounded PAST operator whose window starts in the past (lower bound > 0), beside a sibling with another
            # look-ahead: the delays the pastifier gives to the two operands must match the horizons it computed
            a_ = rng.randint(1, 2)
            pop = rng.choice(['once_b', 'historically_b'])
            core_ = [pop, a_, a_ + rng.randint(0, 2), core_] if op != 'until_b' or rng.random() < 0.5 else ['since_b', a_, a_ + rng.randint(0, 2), pr(), core_]
            ast = [rng.choice(['and', 'or', 'implies']), core_, pr()] if rng.random() < 0.8 else core_
            if rng.random() < 0.5 and ast is not core_:
                ast = [ast[0], ast[2], ast[1]]
        else:
            r_ = rng.random()
            ast = core_ if r_ < 0.5 else (['not', core_] if r_ < 0.7 else [rng.choice(['and', 'or', 'implies']), core_, pr()])
        pvc = True
    modular = None
    if (not dense) and mode == 'on' and rng.random() < 0.15:
        # a named sub-specification used at two places that need different delays after pastify()
        g = common.gen_shared_delays(rng, vars_, set(ops) | {'eventually_b', 'always_b', 'next'}, strict_sorts=True, pred_var_const=True)
        if g is not None and not common.f08_blind(g[0]):
            ast, defs, top = g
            pvc = True
            modular = {'key': json.dumps(ast), 'subs': ['%s = %s;' % (nm, sg.to_text(a)) for nm, a in defs], 'top': 'out = ' + sg.to_text(top) + ';'}
    explicit = None
    if (not dense) and mode == 'on' and modular is None and rng.random() < 0.08:
        # two windows written with the same numerals in different units (period = 1 fine unit): [0:2ms] and [0:2s]
        fine, coarse = rng.choice([('ms', 's'), ('us', 'ms'), ('ns', 'us')])
        op = rng.choice(['historically_b', 'once_b'])
        pr_ = ['pred', rng.choice(['>=', '<=']), ['var', rng.choice(vars_)], ['const', rng.choice(sg.LATTICE)]]
        lo = rng.randint(0, 1)
        hi = lo + rng.randint(1, 2)
        a1, a2 = [op, lo, hi, pr_], [op, 1000 * lo, 1000 * hi, pr_]
        if rng.random() < 0.5:
            a1, a2 = a2, a1
        ast = [rng.choice(['and', 'or', 'implies']), a1, ['not', a2]] if rng.random() < 0.7 else [rng.choice(['and', 'or']), ['not', a1], a2]
        table = {(lo, hi): '[%d:%d%s]' % (lo, hi, fine), (1000 * lo, 1000 * hi): '[%d:%d%s]' % (lo, hi, coarse)}
        explicit = {'key': json.dumps(ast), 'text': 'out = ' + sg.to_text(ast, None, lambda l, h, sp: table[(l, h)]) + ';',
                    'unit': fine, 'sampling': [1, fine, 0.1]}
        pvc = True
    pastify = mode == 'on' and any(x[0] in sg.FUTURE_OPS for x in sg.walk(ast))
    reparse = 'out = ((%s) >= (%s));' % (rng.choice(vars_), sg.fmt_num(rng.choice([0.75, 2.5, 0.0, 1.0]))) if rng.random() < 0.12 else None
    sc = {'reparse': reparse, 'explicit': explicit, 'kind': kind, 'mode': mode, 'vars': vars_, 'ast': ast, 'pvc': pvc, 'pastify': pastify, 'modular': modular,
          'noise_seeds': [[rng.uniform(-1, 1) for _ in range(40)] for _ in range(3)]}
    if kind in ('dt', 'ct') and not explicit and rng.random() < 0.3 and common.iastl_safe(ast):
        sc['iastl'] = {'sem': rng.choice(['output-robustness', 'input-robustness']),
                       'io': dict((v, rng.choice(['input', 'output'])) for v in vars_ if rng.random() < 0.8)}
    if dense:
        sc['signals'] = dict((v, world.gen_dense_signal(rng, rng.randint(1, 6), start_q=0, max_gap_q=4)[0]) for v in vars_)
        sc['nbatches'] = rng.randint(1, 3)
    else:
        sc['n'] = rng.randint(1, 8) + (int(sg.horizon(ast)) + int(common.warmup_extra(ast)) if pastify else 0)
        sc['data'] = world.gen_trace(rng, vars_, sc['n'])
        if near or rng.random() < 0.1:
            common.nudge_to_thresholds(rng, ast, sc['data'])
    return sc


def _memory_above_future(ast):
    for x in sg.walk(ast):
        if x[0] in sg.MEMORY_PAST and any(sg.horizon(c) > 0 for c in sg.children(x)):
            return True
    return False


def envelope(sc):
    return common.f08_blind(sc['ast']) if sc.get('pastify') else []


def sign_hook_scalar(node, l, r):
    # Boolean semantics of a predicate: strict and non-strict comparisons differ exactly at equality (where the standard
    # robustness is 0 and claims nothing, but an interface-aware monitor reports +-inf by the truth of the predicate)
    pred_value(node[1], l, r)          # (raises RefError for undefined operands, like the quantitative reference)
    return 1.0 if pred_sat(node[1], l, r) else -1.0


def sign_hook_list(node, xs, ys):
    return [sign_hook_scalar(node, x, y) for x, y in zip(xs, ys)]


def sgn(v):
    return 1 if v > 0 else (-1 if v < 0 else 0)


def desc_of(sc):
    d = _desc_of(sc)
    if sc.get('iastl') and sc['kind'] in ('dt', 'ct'):
        # interface-aware robustness (only the combined classes take a semantics): an insensitive predicate reports +-inf by its
        # truth, so the sign clause must hold as it stands (the magnitude clause does not: +-inf says nothing about distance)
        d['semantics'] = sc['iastl']['sem']
        d['io'] = dict(sc['iastl']['io'])
    if sc.get('reparse'):
        # the object was parsed (and is re-parsed) in a parameter sweep: another threshold first
        d['prior'] = {'spec': sc['reparse']}
    return d


def _desc_of(sc):
    dense = sc['kind'].startswith('ct')
    e = sc.get('explicit')
    if e and e['key'] == json.dumps(sc['ast']):
        return {'cls': sc['kind'], 'vars': common.var_decls(sc['vars']), 'pastify': False, 'spec': e['text'], 'unit': e['unit'],
                'sampling': e['sampling']}
    m = sc.get('modular')
    if m and m['key'] == json.dumps(sc['ast']):
        return {'cls': sc['kind'], 'vars': common.var_decls(sc['vars']), 'pastify': bool(sc.get('pastify')), 'subspecs': m['subs'], 'spec': m['top']}
    return {'cls': sc['kind'], 'vars': common.var_decls(sc['vars']), 'pastify': bool(sc.get('pastify')),
            'spec': common.dense_text(sc['ast']) if dense else 'out = ' + sg.to_text(sc['ast']) + ';'}


def monitor_values(sc, data, r):
    """discrete: list of values per sample; dense: step function (list of (t,v)) or None"""
    dense = sc['kind'].startswith('ct')
    mon = M.build(desc_of(sc))
    r.api_calls += 2
    if sc['mode'] == 'off':
        if dense:
            return D.from_samples(M.ct_evaluate(mon, data, sc['vars']))
        return [p[1] for p in M.dt_evaluate(mon, list(range(sc['n'])), data)]
    if dense:
        nb = sc['nbatches']
        out = []
        for k in range(nb):
            out += M.ct_update(mon, dict((v, data[v][len(data[v]) * k // nb:len(data[v]) * (k + 1) // nb]) for v in sc['vars']), sc['vars'])
        return D.from_samples(out)
    return [M.dt_update(mon, i, [(v, data[v][i]) for v in sc['vars']]) for i in range(sc['n'])]


def bool_values(sc, data):
    dense = sc['kind'].startswith('ct')
    if sc.get('pastify'):
        h = int(sg.horizon(sc['ast']))
        out = []
        for i in range(sc['n']):
            if i < h:
                out.append(None)
            else:
                pre = dict((v, data[v][:i + 1]) for v in data)
                out.append(eval_discrete(sc['ast'], pre, i + 1, pred_hook=sign_hook_list)[i - h])
        return out
    if dense:
        used = sg.vars_of(sc['ast'])
        return D.eval_dense(sc['ast'], dict((v, data[v]) for v in used), pred_hook=sign_hook_scalar)
    return eval_discrete(sc['ast'], data, sc['n'], pred_hook=sign_hook_list)


def value_at(vals, t, dense, online=False):
    if dense:
        if not vals or t < vals[0][0]:
            return None
        if online and t > vals[-1][0]:
            return None        # beyond what the concatenated online output covers: no claim
        return D.at(vals, t)
    return vals[t]


def perturbations(sc, data, mag):
    """list of (name, perturbed data); every sample moves by at most mag"""
    dense = sc['kind'].startswith('ct')
    preds = [x for x in sg.walk(sc['ast']) if x[0] == 'pred']

    def apply(fn):
        out = {}
        for v in data:
            if dense:
                out[v] = [[t, fn(v, i, x)] for i, (t, x) in enumerate(data[v])]
            else:
                out[v] = [fn(v, i, x) for i, x in enumerate(data[v])]
        return out
    res = [('all_up', apply(lambda v, i, x: x + mag)), ('all_down', apply(lambda v, i, x: x - mag))]
    seen = set()
    for p in preds:
        var = p[2][1] if p[2][0] == 'var' else p[3][1]
        c = p[3][1] if p[3][0] == 'const' else p[2][1]
        if (var, c) in seen:
            continue
        seen.add((var, c))
        res.append(('toward_%s_%s' % (var, c),
                    apply(lambda v, i, x: (x - mag if x > c else x + mag) if v == var else x)))
        res.append(('away_%s_%s' % (var, c),
                    apply(lambda v, i, x: (x + mag if x > c else x - mag) if v == var else x)))
    for k, seeds in enumerate(sc.get('noise_seeds', [])):
        cnt = [0]

        def rnd(v, i, x, seeds=seeds, cnt=cnt):
            e = seeds[cnt[0] % len(seeds)] * mag
            cnt[0] += 1
            return x + e
        res.append(('random_%d' % k, apply(rnd)))
    return res


def run(sc):
    r = Result()
    dense = sc['kind'].startswith('ct')
    data = sc['signals'] if dense else sc['data']
    try:
        if not common.ref_defined([sc['ast']], dense, data, sc.get('n')):
            r.discarded = True
            return r
        if sc.get('pastify') and not common.ref_defined_on_prefixes([sc['ast']], data, sc['n']):
            r.discarded = True
            return r
        bv = bool_values(sc, data)
    except RefError:
        r.discarded = True
        return r
    try:
        mv = monitor_values(sc, data, r)
    except M.ApiCrash as e:
        r.crashes[e.exc_type] += 1
        r.violate('api-raised', spec=desc_of(sc), **e.describe())
        r.obs.append(['crash', e.exc_type])
        return r
    r.obs.append(mv)
    if dense:
        used = sg.vars_of(sc['ast'])
        s0 = max(data[v][0][0] for v in used)
        e0 = min(data[v][-1][0] for v in used)
        hi = e0 if sc['mode'] == 'off' else (min(e0, mv[-1][0]) if mv else s0 - 1)
        lo = s0 if sc['mode'] == 'off' else (max(s0, mv[0][0]) if mv else s0)
        instants = [t for t in D.check_points([mv or [], bv], lo, hi)] if hi >= lo else []
        r.sim_time += max(0.0, hi - lo)
    else:
        # pastified: from the horizon on; inside the F08 region once the warm-up left every operator's memory
        instants = list(range(int(sg.horizon(sc['ast'])) + int(common.warmup_extra(sc['ast'])) if sc.get('pastify') else 0, sc['n']))
        if sc.get('pastify') and common.warmup_extra(sc['ast']):
            r.probes['compared_after_warmup_memory'] += 1
        r.sim_time += sc['n']
        if sc.get('pastify'):
            r.probes['pastified'] += 1
    signs = []
    checked = []
    for t in instants:
        rho = value_at(mv, t, dense)
        if rho is None:
            continue
        b = value_at(bv, t, dense)
        r.evals += 1
        if rho != rho:
            continue
        if rho > 0:
            r.probes['positive_verdict'] += 1
            if not b > 0:
                r.violate('positive-robustness-implies-satisfied', spec=desc_of(sc), mode=sc['mode'], data=data, t=t, rho=rho, boolean=b)
                return r
        elif rho < 0:
            r.probes['negative_verdict'] += 1
            if not b < 0:
                r.violate('negative-robustness-implies-violated', spec=desc_of(sc), mode=sc['mode'], data=data, t=t, rho=rho, boolean=b)
                return r
        else:
            r.probes['zero_robustness_no_claim'] += 1
        signs.append(sgn(rho))
        if rho not in (0, INF, -INF):
            checked.append((t, rho))
    # oracle 2: bounded sensor noise
    if sc.get('iastl') and sc['kind'] in ('dt', 'ct'):
        r.probes['interface_aware_semantics'] += 1
    elif sc.get('pvc') and checked:
        r.probes['perturbation_clause'] += 1
        pick = checked[:2] + checked[-2:] if len(checked) > 4 else checked
        for t, rho in pick:
            mag = 0.999 * abs(rho)
            for name, pdata in perturbations(sc, data, mag):
                r.faults['noise'] += 1
                try:
                    b2 = value_at(bool_values(sc, pdata), t, dense)
                except RefError:
                    continue
                r.evals += 1
                if sgn(b2) != sgn(rho):
                    r.violate('verdict-stable-under-noise-below-rho', spec=desc_of(sc), mode=sc['mode'], data=data, t=t, rho=rho,
                              noise=name, magnitude=mag, perturbed=pdata, boolean_on_perturbed=b2)
                    return r
                try:
                    mv2 = monitor_values(sc, pdata, r)
                except M.ApiCrash as e:
                    r.crashes[e.exc_type] += 1
                    r.violate('api-raised', spec=desc_of(sc), **e.describe())
                    return r
                rho2 = value_at(mv2, t, dense, online=(sc['mode'] == 'on'))
                if rho2 is None and dense and sc['mode'] == 'on':
                    continue       # the re-run covers a shorter span (coverage may depend on the values): nothing to compare
                r.evals += 1
                if rho2 is None or sgn(rho2) != sgn(rho):
                    r.violate('monitor-sign-stable-under-noise-below-rho', spec=desc_of(sc), mode=sc['mode'], data=data, t=t, rho=rho,
                              noise=name, magnitude=mag, perturbed=pdata, rho_on_perturbed=rho2)
                    return r
    ops = sg.ops_of(sc['ast'])
    for x in sg.walk(sc['ast']):
        if x[0] in ('not', 'implies') and any(y[0] in ('not', 'or', 'implies') + sg.TEMPORAL for c in sg.children(x) for y in sg.walk(c)):
            r.probes['nested_not_or_implies'] += 1
            break
    if dense:
        r.probes['dense_time'] += 1
    if sc['mode'] == 'on':
        r.probes['online'] += 1
    if sc.get('modular') and sc['modular']['key'] == json.dumps(sc['ast']):
        r.probes['modular_shared_delays'] += 1
    if sc.get('explicit') and sc['explicit']['key'] == json.dumps(sc['ast']):
        r.probes['same_numerals_different_unit'] += 1
    if any(s != 0 for s in signs) and checked:
        r.nontrivial.add('%s|%s%s|%s' % (sg.shape(sc['ast']), sc['kind'], sc['mode'], ''.join('+' if s > 0 else '-' if s < 0 else '0' for s in signs[:12])))
    return r


def shrinks(sc):
    dense = sc['kind'].startswith('ct')
    if sc.get('reparse'):
        c = copy.deepcopy(sc)
        c['reparse'] = None
        yield c
    if dense:
        if sc.get('nbatches', 1) > 1:
            c = copy.deepcopy(sc)
            c['nbatches'] = 1
            yield c
        for c in common.shrink_dense(sc):
            if _ok(c):
                yield c
    else:
        for c in common.shrink_discrete(sc):
            if _ok(c):
                yield c


def _ok(c):
    a = c['ast']
    if not sg.vars_of(a) or a[0] in ('var', 'const') or a[0] in sg.TERM_UN + sg.TERM_BIN:
        return False
    # stay properly sorted: the children of Boolean/temporal operators must be formulas
    for x in sg.walk(a):
        if x[0] in sg.FORM_UN + sg.FORM_BIN + sg.TUN + sg.TBIN:
            for ch in sg.children(x):
                if ch[0] in ('var', 'const') or ch[0] in sg.TERM_UN + sg.TERM_BIN:
                    return False
        if x[0] == 'pred' or x[0] in sg.TERM_UN + sg.TERM_BIN:
            for ch in sg.children(x):
                if ch[0] == 'pred' or ch[0] in sg.FORM_UN + sg.FORM_BIN + sg.TUN + sg.TBIN:
                    return False
    if c.get('pvc'):
        for x in sg.walk(a):
            if x[0] == 'pred':
                k = sorted([x[2][0], x[3][0]])
                if k != ['const', 'var']:
                    return False
    return True
