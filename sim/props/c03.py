"""C03 - pastified bounded-future monitor reports the original robustness with a fixed delay.

Run: a bounded-future specification (arbitrary mix of past, bounded future, Boolean, arithmetic; siblings with
different horizons; bounds written in several unit notations) is parsed, pastified and stepped online.
Oracle 1: for every i >= h (RefHorizon, in samples) the i-th update() equals the real offline value of the
un-pastified specification at index i-h evaluated on the prefix 0..i.
Oracle 2: a specification without future operators gives identical outputs with and without pastify().
This is the one bounded-progress statement: once h further samples have arrived the verdict for i-h is out.
"""
import copy

from .. import specgen as sg
from .. import monitors as M
from .. import world
from .. import units
from ..core import Result
from ..ref.discrete import eval_discrete, RefError
from . import common

ID = 'C03'
LEVEL = 'exploration'
RUNS = {'quick': 30000, 'thorough': 200000}
SIM_TIME_UNIT = 'samples'
RULE = ('seeded generation of (bounded-future specification, unit notation of every bound, sampling period/unit, trace of '
        'h+1..h+10 samples); every i >= h is a checked history; non-trivial = expected delayed output finite somewhere and not '
        'constant; distinct = distinct (operator skeleton, horizon, notation class)')
ASSUMPTIONS = ['expected values come from the real offline monitor on each prefix (C01 checks it against RefDiscrete); RefDiscrete '
               'arbitrates', 'horizon from RefHorizon (sum of upper bounds along nested future operators, next = 1)',
               'envelope rules exclude the regions of the open known findings listed in known_findings.jsonl']
REAL = common.REAL_ALL
STUBS = common.STUBS_ALL
INTERLEAVING_MEASURE = 'distinct (history length, horizon, notation class) tuples'
PROBES = ['horizon_gt_3', 'sibling_horizons_differ', 'explicit_units', 'no_future_operator', 'past_above_future', 'next_used', 'modular_specification']
ENVELOPE_RULES = ['memory-past-above-delayed (F08), narrowed: only a past operator with UNBOUNDED memory (once, historically, since) above a sub-formula with horizon > 0 is excluded; with bounded memory m (prev/s_prev/rise/fall: 1, bounded operators: their upper bound, summed along nesting) the comparison starts m updates after the horizon (common.warmup_extra)',
                  'partial-function-over-delayed: log(x, base) whose operands have different horizons (known finding F08b)']


def _memory_above_future(ast):
    for x in sg.walk(ast):
        if x[0] in sg.MEMORY_PAST:
            if any(sg.horizon(c) > 0 for c in sg.children(x)):
                return True
    return False


def envelope(sc):
    # F08 with bounded memory is no longer excluded: such formulas are compared from horizon + warmup_extra on (see run)
    out = [x for x in common.warmup_visible(sc['ast']) if x != 'memory-past-above-delayed']
    if common.warmup_extra(sc['ast']) == float('inf') or (sc.get('literal') and common.warmup_extra(sc['ast']) > 0):
        out.append('memory-past-above-delayed')
    return out


def gen(rng, tier):
    for _ in range(200):
        sc = _gen(rng, tier)
        if not envelope(sc):
            return sc
    raise RuntimeError('generator cannot leave the envelope')


def _gen(rng, tier):
    big = tier == 'thorough'
    nv = rng.randint(1, 4 if big else 3)
    vars_ = common.VARS[:nv]
    pure_past = rng.random() < 0.2
    ops = set(common.PAST_OPS if pure_past else common.BOUNDED_FUTURE_OPS)
    cfg = sg.GenCfg(vars=vars_, ops=ops, max_depth=rng.randint(2, 6 if big else 5), max_bound=rng.choice([1, 2, 3, 4] + ([6] if big else [])),
                    p_reuse=rng.choice([0.0, 0.0, 0.2]), p_loose=rng.choice([0.08, 0.08, 0.5]))
    long_windows = rng.random() < 0.02
    if long_windows:
        # second-long bounds at millisecond sampling: one or two windows of 64-100 samples, horizon below 250 samples
        cfg.max_bound = rng.choice([64, 70, 100])
        cfg.hi_min = 60
        cfg.max_depth = 2
    medium_windows = (not long_windows) and rng.random() < 0.08
    if medium_windows:
        cfg.max_bound = rng.choice([9, 12, 16])
        cfg.hi_min = 9
        cfg.max_depth = 2
    ast = sg.gen_formula(rng, cfg)
    if long_windows and sg.horizon(ast) > 250:
        ast = sg.gen_formula(rng, sg.GenCfg(vars=vars_, ops=ops, max_depth=1, max_bound=70, hi_min=64))
    if not pure_past and rng.random() < 0.5 and sg.horizon(ast) > 0:
        # force a sibling with a different horizon
        other = sg.gen_formula(rng, sg.GenCfg(vars=vars_, ops=ops, max_depth=2, max_bound=2))
        ast = [rng.choice(['and', 'or', 'implies']), ast, other] if rng.random() < 0.5 else \
              [rng.choice(['and', 'or', 'implies']), other, ast]
    if not pure_past and rng.random() < 0.06:
        # directed: arithmetic whose operands need different delays (the grammar is untyped: x / (abs(eventually[0,2] y) + 1))
        def fut(depth):
            o = rng.choice(['eventually_b', 'always_b', 'next'])
            x = ['var', rng.choice(vars_)] if depth <= 0 or rng.random() < 0.6 else fut(depth - 1)
            if o == 'next':
                return ['next', x]
            lo = rng.randint(0, 2)
            return [o, lo, lo + rng.randint(0, 2), x]
        t1 = ['var', rng.choice(vars_)] if rng.random() < 0.6 else fut(1)
        t2 = fut(1)
        op = rng.choice(['+', '-', '*', '/', '/'])
        if op == '/':
            t2 = ['+', ['abs', t2], ['const', 1.0]]
        if rng.random() < 0.3 and op != '/':
            t1, t2 = t2, t1
        ast = ['pred', rng.choice(sg.CMPS), [op, t1, t2], ['const', rng.choice(sg.LATTICE)]]
        if rng.random() < 0.4:
            ast = [rng.choice(['and', 'or']), ast, sg.gen_formula(rng, sg.GenCfg(vars=vars_, ops=ops, max_depth=2, max_bound=2))]
    modular = rng.random() < 0.25
    shared = None
    if modular and not pure_past and rng.random() < 0.5:
        # one sub-formula used at two places that need different delays
        shared = sg.gen_formula(rng, sg.GenCfg(vars=vars_, ops=ops, max_depth=rng.randint(1, 2), max_bound=2))
        if shared[0] in ('var', 'const'):
            shared = None
    if shared is not None:
        def wrap(x):
            for _ in range(rng.randint(1, 2)):
                o = rng.choice(['eventually_b', 'always_b', 'next', 'not', 'once_b'])
                x = [o, x] if o in ('next', 'not') else [o, rng.randint(0, 1), rng.randint(1, 3), x]
            return x
        l, r_ = wrap(shared), (shared if rng.random() < 0.6 else wrap(shared))
        if rng.random() < 0.5:
            l, r_ = r_, l
        ast = [rng.choice(['and', 'or', 'implies']), l, r_]
    h = sg.horizon(ast)
    notation = units.gen_notation(rng)
    subspecs = None
    if modular and sg.size(ast) >= 4:
        # the same formula written with named sub-specifications (referred to at places that need different delays)
        if shared is not None:
            def cut(x):
                if sg.key(x) == sg.key(shared):
                    return ['ref', 'p1']
                return sg.with_children(x, [cut(c) for c in sg.children(x)])
            defs, top = [['p1', shared]], cut(ast)
        else:
            defs, top = sg.modularize(rng, ast, max_subs=3)
        sp, bp = sg.Spelling(rng), units.bounds_printer(notation, rng)
        subs = ['%s = %s;' % (nm, sg.to_text(a, sp, bp)) for nm, a in defs]
        text = 'out = ' + sg.to_text(top, sp, bp) + ';'
        if rng.random() < 0.5:
            text = '\n'.join(subs + [text])
        else:
            subspecs = subs
    else:
        text = 'out = ' + sg.to_text(ast, sg.Spelling(rng), units.bounds_printer(notation, rng)) + ';'
    ex = common.warmup_extra(ast)
    n = int(h) + (int(ex) if ex != float('inf') else 0) + rng.randint(1, 16 if big else 10) if h != float('inf') else 5
    data = world.gen_trace(rng, vars_, n, style=('plateau' if medium_windows and rng.random() < 0.6 else None))
    return {'repastify_at': (rng.randrange(1, n) if n > 1 and rng.random() < 0.1 else None),
            'vars': vars_, 'ast': ast, 'text': text, 'subspecs': subspecs, 'n': n, 'data': data, 'notation': notation,
            'times': units.stamps(notation, n)}


def run(sc):
    r = Result()
    ast, n, data = sc['ast'], sc['n'], sc['data']
    h = sg.horizon(ast)
    notation = sc['notation']
    text = sc.get('text') or ('out = ' + sg.to_text(ast, None, units.bounds_printer(notation, None)) + ';')
    times = sc['times']
    base = {'vars': common.var_decls(sc['vars']), 'spec': text}
    if sc.get('text') and (sc.get('subspecs') or '\n' in text):
        base['subspecs'] = sc.get('subspecs') or []
        r.probes['modular_specification'] += 1
    base.update(units.spec_config(notation))
    on_desc = dict(base, cls='dt_on', pastify=True)
    off_desc = dict(base, cls='dt_off')
    has_future = any(x[0] in sg.FUTURE_OPS for x in sg.walk(ast))
    if not common.ref_defined_on_prefixes([ast], data, n):
        r.discarded = True
        return r
    try:
        mon = M.build(on_desc)
        r.api_calls += 3
    except M.ApiCrash as e:
        r.crashes[e.exc_type] += 1
        r.violate('parse-or-pastify-raised', spec=text, notation=notation, **e.describe())
        return r
    outs = []
    for i in range(n):
        try:
            if sc.get('repastify_at') == i:
                # pastify() called again in the middle of the stream: the specification has no future operator any more, so
                # this must not change anything - the monitor's memory included
                M.api('pastify', mon.pastify)
                r.faults['pastify_again_mid_stream'] += 1
            outs.append(M.dt_update(mon, times[i], [(v, data[v][i]) for v in sc['vars']]))
            r.api_calls += 1
        except M.ApiCrash as e:
            r.crashes[e.exc_type] += 1
            r.violate('update-raised', step=i, spec=text, notation=notation, **e.describe())
            return r
        d = M.state_digest(mon)
        if d:
            r.states.add(d)
    r.obs.append(outs)
    r.sim_time += n
    # A second pastify() in the middle of the stream is a use no property specifies: the monitor may go on (what the unchanged tree
    # does) or start a new episode there, like after reset() (what an independent behaviour-preserving rewrite, benign/B11, does).
    # Both are accepted; anything else (an exception, values of neither continuation) is a violation. DESIGN 8.2, round l.
    k_re = sc.get('repastify_at')
    k_re = k_re if (k_re is not None and 0 < k_re < n) else None
    restarted = False
    expected = []
    hh = int(h)
    # inside the region of the open finding F08 the comparison starts once the warm-up outputs have left every operator's
    # memory (common.warmup_extra); the pinned witness carries 'literal': True and is compared from the horizon on, as the
    # property says
    skip = 0 if sc.get('literal') else common.warmup_extra(ast)
    if skip == float('inf'):
        skip = n
    if skip:
        r.probes['compared_after_warmup_memory'] += 1
    if k_re is not None:
        # would the outputs from the second pastify() on be those of a monitor that starts a new episode there? (compared from the
        # horizon and the warm-up memory of the NEW episode on; NaN equals NaN)
        try:
            mon_r = M.build(on_desc)
            alt = [M.dt_update(mon_r, times[i], [(v, data[v][i]) for v in sc['vars']]) for i in range(k_re, n)]
            restarted = all(M.num_eq(outs[j], alt[j - k_re]) or (outs[j] != outs[j] and alt[j - k_re] != alt[j - k_re])
                            for j in range(k_re + hh + int(skip), n))
        except M.ApiCrash:
            restarted = False
    for i in range(hh + int(skip), n):
        pre = dict((v, data[v][:i + 1]) for v in data)
        try:
            ref = eval_discrete(ast, pre, i + 1)
        except RefError:
            r.discarded = True
            return r
        try:
            off = M.dt_evaluate(M.build(off_desc), times[:i + 1], pre)
            r.api_calls += 3
        except M.ApiCrash as e:
            r.crashes[e.exc_type] += 1
            r.violate('offline-raised', spec=text, notation=notation, **e.describe())
            return r
        want = off[i - hh][1]
        expected.append(want)
        r.evals += 1
        if not M.num_eq(outs[i], want):
            if k_re is not None and i >= k_re and restarted:
                r.probes['second_pastify_started_a_new_episode'] += 1
                break
            side = 'online' if M.num_eq(want, ref[i - hh]) else ('offline' if M.num_eq(outs[i], ref[i - hh]) else 'both')
            r.violate('delayed-equals-offline', step=i, horizon=hh, spec=text, notation=notation, data=data,
                      online=outs[i], offline=want, ref=ref[i - hh], wrong_side=side)
            break
    if not has_future:
        try:
            mon2 = M.build(dict(on_desc, pastify=False))
            outs2 = [M.dt_update(mon2, times[i], [(v, data[v][i]) for v in sc['vars']]) for i in range(n)]
            r.evals += 1
            m_ = k_re if (restarted and k_re is not None and not M.list_eq(outs, outs2)) else n
            if not M.list_eq(outs[:m_], outs2[:m_]):
                r.violate('pastify-identity-without-future', spec=text, notation=notation, data=data, pastified=outs,
                          plain=outs2)
        except M.ApiCrash as e:
            r.crashes[e.exc_type] += 1
            r.violate('update-raised', spec=text, notation=notation, **e.describe())
        r.probes['no_future_operator'] += 1
    if common.count_nontrivial(expected):
        r.nontrivial.add('%s|h=%d|%s' % (sg.shape(ast), hh, units.notation_class(notation)))
    if hh > 3:
        r.probes['horizon_gt_3'] += 1
    for x in sg.walk(ast):
        ch = sg.children(x)
        if len(ch) == 2 and sg.horizon(ch[0]) != sg.horizon(ch[1]):
            r.probes['sibling_horizons_differ'] += 1
            break
    if units.notation_class(notation) != 'plain':
        r.probes['explicit_units'] += 1
        r.faults['unit_notation_non_default'] += 1
    r.faults['online_stepping'] += n
    r.interleavings.add('n=%d|h=%d|%s' % (n, hh, units.notation_class(notation)))
    if any(x[0] in sg.MEMORY_PAST for x in sg.walk(ast)) and has_future:
        r.probes['past_above_future'] += 1
    if any(x[0] in sg.SHIFT_FUT for x in sg.walk(ast)):
        r.probes['next_used'] += 1
    return r


def shrinks(sc):
    def extra(s):
        if units.notation_class(s['notation']) != 'plain':
            c = copy.deepcopy(s)
            c['notation'] = units.plain_notation()
            c['text'] = None
            c['times'] = units.stamps(c['notation'], c['n'])
            yield c
    for c in common.shrink_discrete(sc, extra=extra):
        h = sg.horizon(c['ast'])
        if h == float('inf'):
            continue
        ex = common.warmup_extra(c['ast'])
        if c['n'] <= h + (ex if not c.get('literal') else 0):
            continue
        c['times'] = units.stamps(c['notation'], c['n'])
        c['text'] = None
        yield c
