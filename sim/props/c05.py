"""C05 - dense-time online output does not depend on how the input is chunked.

Run: a past (or pastified bounded-future) specification; every variable's sample stream is cut into consecutive
update() batches by a chunking schedule. Schedules: everything at once, one instant per update, all 2^(m-1)
synchronous frontier splittings (enumerated when m-1 <= cap, sampled otherwise), and per-variable independent
splittings with skew and empty batches. A fresh real monitor is used per schedule.
Oracle: for each schedule the concatenation of the returned lists has non-decreasing stamps and, on the span it
covers, denotes the same step function as the real dense-time offline monitor on the whole signal (shifted by
the horizon after pastify); any two schedules agree wherever both cover. RefDense arbitrates.
"""
import copy
import itertools

from .. import specgen as sg
from .. import monitors as M
from .. import world
from ..core import Result
from ..ref import dense as D
from ..ref.discrete import RefError
from . import common

ID = 'C05'
LEVEL = 'fault_enumeration'
RUNS = {'quick': 6000, 'thorough': 40000}
SIM_TIME_UNIT = 'dense time units (summed over schedules)'
RULE = ('seeded generation of (dense-time past or pastified bounded-future specification, 1-3 signals of 2..8 samples); inside '
        'each run the chunking dimension is enumerated: all-at-once, one instant per update, every synchronous frontier '
        'splitting (all 2^(m-1) when m-1 <= cap: quick cap 5, thorough cap 9; otherwise 32/256 sampled ones) and 4 per-variable '
        'skewed splittings with empty batches; non-trivial = offline result has >= 2 segments with a finite value and at '
        'least two different schedules were compared; distinct = distinct (operator skeleton, number of instants)')
ASSUMPTIONS = ['expected function = real dense-time offline monitor on the whole signals (C04 checks it against RefDense); '
               'RefDense arbitrates', 'a concatenated output covers [first stamp, last stamp]; at a repeated stamp the later '
               'sample wins; value at an instant = last sample not after it',
               'when a bounded operator has an operand whose sensors do not start at 0 (F14a, affects the offline oracle) only the agreement between schedules is checked',
               'envelope rules exclude the regions of the open known findings']
REAL = common.REAL_ALL
STUBS = common.STUBS_ALL
PROBES = ['interface_aware_semantics', 'sensors_start_at_different_instants', 'cut_at_window_edge', 'empty_batch', 'pastified', 'skewed_schedule', 'one_sample_batches', 'schedules_enumerated_exhaustively',
          'epoch_time_stamps', 'nano_scale_values', 'one_sensor_1000_samples_ahead']
INTERLEAVING_MEASURE = 'distinct chunking patterns (per variable: tuple of batch sizes per update)'
ENVELOPE_RULES = ['memory-past-above-delayed (F08), narrowed: only a past operator with UNBOUNDED memory (once, historically, since) above a sub-formula with horizon > 0 is excluded; with bounded memory m (prev/s_prev/rise/fall: 1, bounded operators: their upper bound, summed along nesting) the comparison starts m updates after the horizon (common.warmup_extra)',
                  'bounded-op-nonzero-start (F14a): offline comparison skipped, schedules still compared']

ONLINE_OPS = set(common.DENSE_PAST_OPS)
ONLINE_FUTURE_OPS = ONLINE_OPS | {'eventually_b', 'always_b'}


def _memory_above_future(ast):
    for x in sg.walk(ast):
        if x[0] in sg.MEMORY_PAST:
            if any(sg.horizon(c) > 0 for c in sg.children(x)):
                return True
    return False


def envelope(sc):
    return common.f08_blind(sc['ast']) if sc.get('pastify') else []


def gen(rng, tier):
    for _ in range(500):
        sc = _gen(rng, tier)
        if sc is not None and not envelope(sc):
            return sc
    raise RuntimeError('generator cannot leave the envelope')


def _gen_long_lag(rng, tier):
    """a fast sensor that is far ahead of a slow one: more than a thousand samples of a arrive before b says anything"""
    vars_ = ['a', 'b']
    na = rng.randint(1050, 1300)
    sa = [[i / 4.0, float(rng.randint(-4, 4))] for i in range(na)]
    nb = rng.randint(2, 5)
    sb = [[round(i * (na - 1) / (nb - 1)) / 4.0 if nb > 1 else 0.0, float(rng.randint(-4, 4))] for i in range(nb)]
    pa = ['pred', rng.choice(['>=', '<=']), ['var', 'a'], ['const', rng.choice(sg.LATTICE)]]
    pb = ['pred', rng.choice(['>=', '<=']), ['var', 'b'], ['const', rng.choice(sg.LATTICE)]]
    if rng.random() < 0.5:
        pa, pb = pb, pa
    ast = [rng.choice(['and', 'or', 'implies', 'and']), pa, pb]
    if rng.random() < 0.4:
        ast = [rng.choice(['historically_b', 'once_b']), 0, rng.randint(1, 4), ast]
    k = rng.randint(3, 12)
    cuts = sorted(set(rng.randrange(1, na) for _ in range(k)))
    streamed = [dict(a=sa[i:j], b=[]) for i, j in zip([0] + cuts, cuts + [na])]
    rounds = {'lagging': [dict(a=sa, b=[]), dict(a=[], b=sb)],
              'lagging_streamed': streamed + [dict(a=[], b=sb[:1]), dict(a=[], b=sb[1:])]}
    return {'vars': vars_, 'ast': ast, 'text': common.dense_text(ast), 'signals': {'a': sa, 'b': sb}, 'pastify': False, 'skew': [],
            'sync_picks': [], 'tier': tier, 'long_lag': rounds}


def _gen(rng, tier):
    if rng.random() < 0.004:
        return _gen_long_lag(rng, tier)
    big = tier == 'thorough'
    nv = rng.randint(1, 4 if big else 3)
    vars_ = common.VARS[:nv]
    future = rng.random() < 0.35
    cfg = sg.GenCfg(vars=vars_, ops=(ONLINE_FUTURE_OPS if future else ONLINE_OPS), max_depth=rng.randint(2, 5 if big else 4),
                    max_bound=rng.choice([4, 8] + ([12] if big else [])), p_reuse=rng.choice([0.0, 0.15]), allow_const_only=rng.random() < 0.25)
    ast = sg.gen_formula(rng, cfg)
    used = sg.vars_of(ast)
    if not used:
        return None
    pastify = any(x[0] in sg.FUTURE_OPS for x in sg.walk(ast)) or rng.random() < 0.1
    signals = {}
    late = rng.random() < 0.3          # sensors that come up at different instants
    # stamps are wall-clock seconds since 1970, or microseconds since 1970 (2**50, where a quarter is the float spacing): still exact
    epoch_q = rng.choice([4 * 1700000000, 4 * 2 ** 50]) if rng.random() < 0.12 else 0
    style = 'nano' if rng.random() < 0.1 else None
    for v in vars_:
        s, _ = world.gen_dense_signal(rng, rng.randint(2, 12 if big else 8), start_q=epoch_q + (rng.randint(0, 6) if late else 0), max_gap_q=rng.choice([2, 4, 6]),
                                      style=style)
        signals[v] = s
    text = common.dense_text(ast, sg.Spelling(rng))
    # skewed schedules: per variable independent cut points, realised as rounds
    skew = []
    for _ in range(4):
        rounds = rng.randint(2, 6)
        sched = {}
        for v in vars_:
            n = len(signals[v])
            # assign every sample index a round number, non-decreasing
            rs = sorted(rng.randrange(rounds) for _ in range(n))
            sched[v] = [rs.count(k) for k in range(rounds)]
        skew.append(sched)
    sync_seed = [sorted(rng.sample(range(1, 64), rng.randint(0, 6))) for _ in range(300)]
    sc = {'vars': vars_, 'ast': ast, 'text': text, 'signals': signals, 'pastify': pastify, 'skew': skew,
          'sync_picks': sync_seed, 'tier': tier}
    ia = common.draw_iastl(rng, vars_, ast, p=0.2)
    if ia:
        sc['iastl'] = ia       # offline and online monitor alike run under an interface-aware semantics (combined class)
    return sc


def _instants(signals, vars_):
    return sorted(set(t for v in vars_ for t, _ in signals[v]))


def sync_schedule(signals, vars_, cuts):
    """cuts: sorted list of frontier instants; round k delivers every sample with prev < t <= cut"""
    rounds = []
    prev = -1.0
    for c in list(cuts) + [float('inf')]:
        rounds.append(dict((v, [s for s in signals[v] if prev < s[0] <= c]) for v in vars_))
        prev = c
    return rounds


def skew_schedule(signals, vars_, sizes):
    pos = dict((v, 0) for v in vars_)
    nrounds = len(sizes[vars_[0]])
    rounds = []
    for k in range(nrounds):
        rd = {}
        for v in vars_:
            n = sizes[v][k]
            rd[v] = signals[v][pos[v]:pos[v] + n]
            pos[v] += n
        rounds.append(rd)
    return rounds


def schedules(sc):
    """explicit, deterministic list of (name, rounds) from the scenario"""
    signals, vars_ = sc['signals'], sc['vars']
    if sc.get('long_lag') and not sc.get('only_rounds'):
        return [('all_at_once', sync_schedule(signals, vars_, []))] + [(k, sc['long_lag'][k]) for k in sorted(sc['long_lag'])], False
    if sc.get('only_rounds'):
        # a minimised replay: the failing schedule next to the reference schedule
        return [('all_at_once', sync_schedule(signals, vars_, [])), ('pinned', sc['only_rounds'])], False
    inst = _instants(signals, vars_)
    m = len(inst)
    out = [('all_at_once', sync_schedule(signals, vars_, []))]
    inner = inst[:-1]           # a cut after the last instant changes nothing
    cap = 5 if sc.get('tier', 'quick') == 'quick' else 9
    nsample = 32 if sc.get('tier', 'quick') == 'quick' else 256
    exhaustive = len(inner) <= cap
    if exhaustive:
        for r in range(1, len(inner) + 1):
            for cuts in itertools.combinations(inner, r):
                out.append(('sync', sync_schedule(signals, vars_, list(cuts))))
    else:
        out.append(('sync_each_instant', sync_schedule(signals, vars_, inner)))
        seen = set()
        for picks in sc.get('sync_picks', [])[:nsample * 3]:
            cuts = tuple(sorted(set(inner[p % len(inner)] for p in picks)))
            if cuts and cuts not in seen:
                seen.add(cuts)
                out.append(('sync', sync_schedule(signals, vars_, list(cuts))))
            if len(seen) >= nsample:
                break
    for sizes in sc.get('skew', []):
        if all(sum(sizes[v]) == len(signals[v]) for v in vars_):
            out.append(('skew', skew_schedule(signals, vars_, sizes)))
    return out, exhaustive


def feed(desc, vars_, rounds, r):
    mon = M.build(desc)
    r.api_calls += 2
    outs = []
    for rd in rounds:
        o = M.ct_update(mon, rd, vars_)
        r.api_calls += 1
        d = M.state_digest(mon)
        if d:
            r.states.add(d)
        if not isinstance(o, list):
            raise M.ApiCrash('update', TypeError('update returned %r' % (o,)))
        outs.append(o)
    return outs


def run(sc):
    r = Result()
    ast, signals, vars_ = sc['ast'], sc['signals'], sc['vars']
    used = sg.vars_of(ast)
    h = sg.horizon(ast) * common.DENSE_TICK
    # F08 region with bounded memory: the offline comparison starts once the warm-up left every operator's memory
    wx = (common.warmup_extra(ast) * common.DENSE_TICK) if sc.get('pastify') else 0
    try:
        ref = D.eval_dense(ast, dict((v, signals[v]) for v in used), pred_hook=(common.iastl_hook(sc['iastl']) if sc.get('iastl') else None))
    except RefError:
        r.discarded = True
        return r
    text = sc.get('text') or common.dense_text(ast)
    off_desc = {'cls': 'ct_off', 'vars': common.var_decls(vars_), 'spec': text}
    on_desc = {'cls': 'ct_on', 'vars': common.var_decls(vars_), 'spec': text, 'pastify': bool(sc.get('pastify'))}
    if sc.get('iastl'):
        for d_ in (off_desc, on_desc):
            d_.update(cls='ct', semantics=sc['iastl']['sem'], io=dict(sc['iastl']['io']))
        r.probes['interface_aware_semantics'] += 1
    try:
        off = M.ct_evaluate(M.build(off_desc), signals, vars_)
        r.api_calls += 3
    except M.ApiCrash as e:
        r.crashes[e.exc_type] += 1
        r.violate('offline-raised', spec=text, signals=signals, **e.describe())
        return r
    off_f = D.from_samples(off)
    # the offline oracle is only used outside the region of F14a; the schedules are compared with each other in any case
    offline_usable = not common.bounded_op_nonzero_start(ast, signals)
    s_true = max(signals[v][0][0] for v in used)
    if len(set(signals[v][0][0] for v in vars_)) > 1:
        r.probes['sensors_start_at_different_instants'] += 1
        r.faults['sensor_start_skew'] += 1
    scheds, exhaustive = schedules(sc)
    if exhaustive:
        r.probes['schedules_enumerated_exhaustively'] += 1
    if sc.get('pastify'):
        r.probes['pastified'] += 1
    if sc.get('long_lag'):
        r.probes['one_sensor_1000_samples_ahead'] += 1
    if any(0 < abs(x) < 1e-8 for v in sc['signals'] for _, x in sc['signals'][v]):
        r.probes['nano_scale_values'] += 1
    if any(sc['signals'][v][0][0] > 1e9 for v in sc['signals']):
        r.probes['epoch_time_stamps'] += 1
    edges = set()
    for x in sg.walk(ast):
        if x[0] in sg.TUN + sg.TBIN:
            for v in used:
                for t, _ in signals[v]:
                    edges.add(t + x[1] * 0.25)
                    edges.add(t + x[2] * 0.25)
    first_fn = None
    compared = 0
    for name, rounds in scheds:
        pattern = tuple(tuple(len(rd[v]) for rd in rounds) for v in vars_)
        r.interleavings.add(repr(pattern))
        if any(len(rd[v]) == 0 for rd in rounds for v in vars_):
            r.probes['empty_batch'] += 1
            r.faults['empty_batch'] += 1
        if name == 'skew':
            r.probes['skewed_schedule'] += 1
            r.faults['var_skew'] += 1
        else:
            r.faults['batch_split'] += max(0, len(rounds) - 1)
        if all(sum(len(rd[v]) for v in vars_) <= len(vars_) for rd in rounds):
            r.probes['one_sample_batches'] += 1
        for rd in rounds[:-1]:
            for v in vars_:
                if rd[v] and rd[v][-1][0] in edges:
                    r.probes['cut_at_window_edge'] += 1
        try:
            outs = feed(on_desc, vars_, rounds, r)
        except M.ApiCrash as e:
            r.crashes[e.exc_type] += 1
            r.violate('update-raised', schedule=name, rounds=rounds, spec=text, pastify=sc.get('pastify'), **e.describe())
            r.obs.append(['crash', e.exc_type])
            return r
        cat = [p for o in outs for p in o]
        r.obs.append(cat)
        r.evals += 1
        if not all(isinstance(p, (list, tuple)) and len(p) == 2 for p in cat):
            r.violate('result-shape', schedule=name, spec=text, got=repr(cat)[:300])
            return r
        if not D.nondecreasing(cat):
            r.violate('timestamps-nondecreasing', schedule=name, rounds=rounds, spec=text, got=cat)
            return r
        if not cat:
            continue
        fn = D.from_samples(cat)
        lo, hi = fn[0][0], fn[-1][0]
        r.sim_time += hi - lo
        # compare with offline shifted by h on the covered span (where the offline function is defined)
        s0 = max(off_f[0][0], s_true) if off_f else float('inf')
        pts = [t for t in D.check_points([fn, [(p[0] + h, p[1]) for p in off_f]], lo, hi) if t - h >= s0 + wx] if offline_usable else []
        for t in pts:
            iv = D.at(fn, t)
            ov = D.at(off_f, t - h)
            if not M.num_eq(iv, ov):
                try:
                    rv = D.at(ref, t - h)
                except RefError:
                    rv = None
                side = 'online' if (rv is not None and M.num_eq(ov, rv)) else ('offline' if (rv is not None and M.num_eq(iv, rv)) else 'both')
                r.violate('online-equals-offline', schedule=name, rounds=rounds, spec=text, pastify=sc.get('pastify'),
                          at=t, horizon=h, online=iv, offline=ov, ref=rv, wrong_side=side, online_output=cat, offline_output=off)
                return r
        compared += 1
        if first_fn is None:
            first_fn = (fn, name)
        else:
            f0 = first_fn[0]
            l2, h2 = max(lo, f0[0][0]), min(hi, f0[-1][0])
            if l2 <= h2:
                for t in D.check_points([fn, f0], l2, h2):
                    va, vb = D.at(fn, t), D.at(f0, t)
                    if va != va and vb != vb:
                        continue        # NaN on both sides (inf-inf in a warm-up region): no property speaks about NaN
                    if not M.num_eq(va, vb):
                        r.violate('schedules-agree', schedule=name, rounds=rounds, spec=text, at=t, a=D.at(f0, t), b=D.at(fn, t))
                        return r
    fin = [v for _, v in ref if v not in (float('inf'), -float('inf'))]
    if len(ref) >= 2 and fin and compared >= 2:
        r.nontrivial.add('%s|m=%d' % (sg.shape(ast), len(_instants(signals, vars_))))
    return r


def shrinks(sc):
    def extra(s):
        if s.get('skew'):
            c = copy.deepcopy(s)
            c['skew'] = []
            yield c
        if not s.get('only_rounds'):
            # pin one schedule (the minimiser keeps the first one that still fails)
            for name, rounds in schedules(s)[0][1:60]:
                c = copy.deepcopy(s)
                c['only_rounds'] = rounds
                c['skew'] = []
                c['sync_picks'] = []
                yield c
        unused = [v for v in s['vars'] if v not in sg.vars_of(s['ast'])]
        if unused and not s.get('only_rounds'):
            c = copy.deepcopy(s)
            c['vars'] = [v for v in s['vars'] if v not in unused]
            c['signals'] = dict((v, s['signals'][v]) for v in c['vars'])
            c['skew'] = []
            yield c
    import itertools as _it
    for c in _it.chain(common.shrink_dense(sc), extra(sc)):
        if not sg.vars_of(c['ast']):
            continue
        if c['signals'] != sc['signals']:
            c['skew'] = []
            if c.get('only_rounds'):
                continue
        if any(x[0] in sg.FUTURE_OPS for x in sg.walk(c['ast'])):
            c['pastify'] = True
        if any(len(c['signals'][v]) < 1 for v in c['vars']):
            continue
        yield c
