"""C16 - settled offline results are stable under trace extension.

Run: a specification without unbounded future operators, a recorded log w2; the fault is truncation of the log:
every sample index (discrete) / every combination-free per-variable cut plus common cut instants (dense) gives a
prefix w1. Both logs are evaluated by the real offline monitor.
Oracle: offline(w1) and offline(w2) agree at every t with t + h inside w1 (discrete: t + h < |w1|; dense: t + h <
end of w1 = earliest last time-stamp of w1), h from RefHorizon; for pure-past specifications h = 0.
"""
import copy

from .. import specgen as sg
from .. import monitors as M
from .. import world
from .. import units
from ..core import Result
from ..ref import dense as D
from . import common

ID = 'C16'
LEVEL = 'fault_enumeration'
RUNS = {'quick': 32000, 'thorough': 200000}
SIM_TIME_UNIT = 'samples (discrete) + dense time units'
RULE = ('seeded generation of (specification without unbounded future, log); inside each run the log is truncated at EVERY '
        'sample index (discrete) or at every sample instant common cut plus 6 sampled per-variable cuts (dense); non-trivial = the '
        'settled region is non-empty and the two results differ somewhere outside it or the result is non-constant inside it; '
        'distinct = distinct (operator skeleton, horizon, log length, time domain)')
ASSUMPTIONS = ['both sides are the real offline monitor', 'horizon from RefHorizon', 'dense: all sensors start at 0 when a bounded '
               'operator is present (envelope of F14a)', 'NaN values are compared as equal to NaN']
REAL = common.REAL_ALL
STUBS = common.STUBS_ALL
PROBES = ['log_grown_in_place', 'horizon_gt_0', 'pure_past', 'dense_time', 'padding_visible_outside_settled_region', 'truncated_to_one_sample', 'bounds_with_explicit_units', 'pastified_after_an_offline_evaluation', 'logs_longer_than_1000_samples']
INTERLEAVING_MEASURE = 'distinct (time domain, log length, truncation point) tuples'
ENVELOPE_RULES = ['bounded-op-nonzero-start (F14a) for dense time']


def envelope(sc):
    if sc['dense'] and common.bounded_op_nonzero_start(sc['ast'], sc['signals']):
        return ['bounded-op-nonzero-start']
    return []


def gen(rng, tier):
    for _ in range(300):
        sc = _gen(rng, tier)
        if sc is not None and not envelope(sc):
            return sc
    raise RuntimeError('generator cannot leave the envelope')


def _gen_long_dense(rng):
    """two loggers at the same rate, more than a thousand samples each, same first and last stamp - but one of them has
    a few late samples"""
    vars_ = ['a', 'b']
    n = rng.randint(1020, 1200)
    qa = list(range(0, 2 * n, 2))                 # stamps in quarters: 0, 0.5, 1.0 ...
    qb = list(qa)
    for i in rng.sample(range(1, n - 1), rng.randint(1, 6)):
        qb[i] += 1                                  # a late sample (still before the next one)
    sa = [[q / 4.0, float(rng.randint(-4, 4))] for q in qa]
    sb = [[q / 4.0, float(rng.randint(-4, 4))] for q in qb]
    pa = ['pred', rng.choice(['>=', '<=']), ['var', 'a'], ['const', rng.choice(sg.LATTICE)]]
    pb = ['pred', rng.choice(['>=', '<=']), ['var', 'b'], ['const', rng.choice(sg.LATTICE)]]
    ast = rng.choice([[rng.choice(['and', 'or', 'implies']), pa, pb], ['pred', '>=', [rng.choice(['+', '-']), ['var', 'a'], ['var', 'b']], ['const', 0.0]]])
    if rng.random() < 0.5:
        ast = [rng.choice(['eventually_b', 'always_b', 'once_b', 'historically_b']), 0, rng.randint(1, 8), ast]
    percuts = [dict((v, rng.randint(200, 1000)) for v in vars_) for _ in range(3)]
    percuts += [dict((v, c) for v in vars_) for c in (rng.randint(300, 900), 1000)]
    return {'dense': True, 'vars': vars_, 'ast': ast, 'signals': {'a': sa, 'b': sb}, 'percuts': percuts, 'long_log': True,
            'text': common.dense_text(ast), 'cls': 'ct_off'}


def _modular(rng, ast, bp):
    """the same requirement written with named sub-specifications: returns (text, subspecs-or-None)"""
    if sg.size(ast) < 4:
        return ('out = ' + sg.to_text(ast, sg.Spelling(rng), bp) + ';'), None
    defs, top = sg.modularize(rng, ast, max_subs=3, prefer_stateful=rng.random() < 0.5)
    if rng.random() < 0.3:
        defs, top = sg.add_alias(rng, defs, top, 'q1')       # a bare number or variable with a name of its own (also used as -(q1))
    sp = sg.Spelling(rng)
    subs = ['%s = %s;' % (nm, sg.to_text(a, sp, bp)) for nm, a in defs]
    text = 'out = ' + sg.to_text(top, sp, bp) + ';'
    if rng.random() < 0.5:
        return '\n'.join(subs + [text]), None
    return text, subs


def _gen(rng, tier):
    if rng.random() < 0.003:
        return _gen_long_dense(rng)
    dense = rng.random() < 0.4
    big = tier == 'thorough'
    nv = rng.randint(1, 4 if big else 3)
    vars_ = common.VARS[:nv]
    pure_past = rng.random() < 0.25
    if dense:
        ops = (common.DENSE_PAST_OPS if pure_past else (common.DENSE_OFFLINE_OPS - set(sg.UNBOUNDED_FUTURE)))
    else:
        ops = (common.PAST_OPS if pure_past else common.NO_UNBOUNDED_FUTURE_OPS)
    ast = sg.gen_formula(rng, sg.GenCfg(vars=vars_, ops=ops, max_depth=rng.randint(2, 5 if big else 4), max_bound=rng.choice([2, 4, 6] + ([10] if big else [])),
                                        p_reuse=rng.choice([0.0, 0.2]), allow_const_only=rng.random() < 0.1))
    used = sg.vars_of(ast)
    if not used:
        return None
    if dense:
        zero = rng.random() < 0.7
        signals = dict((v, world.gen_dense_signal(rng, rng.randint(2, 8), start_q=0 if zero else rng.randint(0, 4),
                                                   max_gap_q=rng.choice([2, 4, 6]))[0]) for v in vars_)
        percuts = [dict((v, rng.randint(1, len(signals[v]))) for v in vars_) for _ in range(6)]
        text, subspecs = _modular(rng, ast, common.dense_bounds) if rng.random() < 0.2 else (common.dense_text(ast, sg.Spelling(rng)), None)
        return {'dense': True, 'vars': vars_, 'ast': ast, 'signals': signals, 'percuts': percuts, 'subspecs': subspecs,
                'text': text, 'cls': rng.choice(['ct_off', 'ct_off', 'ct'])}
    n = rng.randint(2, 24 if big else 14)
    data = world.gen_trace(rng, vars_, n)
    notation = units.gen_notation(rng, p_plain=0.75)       # bounds written with explicit units, sampling period in another unit
    try:
        text = 'out = ' + sg.to_text(ast, sg.Spelling(rng), units.bounds_printer(notation, rng)) + ';'
    except ValueError:
        notation = units.plain_notation()
        text = 'out = ' + sg.to_text(ast, sg.Spelling(rng)) + ';'
    subspecs = None
    if units.notation_class(notation) == 'plain' and rng.random() < 0.25:
        text, subspecs = _modular(rng, ast, None)
    # the object that evaluates the long log has a history: it was used before under a sampling period k times as long
    prior_factor = rng.choice([2, 3, 10]) if rng.random() < 0.15 else None
    return {'subspecs': subspecs, 'past_off': rng.random() < 0.08, 'dense': False, 'vars': vars_, 'ast': ast, 'n': n, 'data': data, 'notation': notation, 'prior_factor': prior_factor,
            'text': text, 'cls': rng.choice(['dt_off', 'dt_off', 'dt']),
            # a log that GROWS: one long-lived object evaluates the caller's one data set, whose columns are extended in place
            'grow': rng.random() < 0.25}


def _defined_everywhere(sc):
    """reference definedness of the formula on the whole log and on its truncations (only consulted when a real call raised)"""
    ast = sc['ast']
    if not sc['dense']:
        return common.ref_defined_on_prefixes([ast], sc['data'], sc['n'])
    sig = sc['signals']
    if not common.ref_defined([ast], True, sig):
        return False
    if sc.get('long_log'):
        return True
    vs = sc['vars']
    cuts = [dict((v, len([x for x in sig[v] if x[0] <= t])) for v in vs) for t in sorted(set(x[0] for v in vs for x in sig[v]))]
    cuts += list(sc.get('percuts', []))
    for c in cuts:
        w1 = dict((v, sig[v][:c[v]]) for v in vs)
        if all(w1[v] for v in sg.vars_of(ast)) and not common.ref_defined([ast], True, w1):
            return False
    return True


def eqn(a, b):
    return M.num_eq(a, b) or (a != a and b != b)


def run(sc):
    r = Result()
    ast = sc['ast']
    h = sg.horizon(ast)
    nt = sc.get('notation') if (sc['text'] and not sc['dense']) else None     # a shrunk formula is re-printed in ticks
    past_off = bool(sc.get('past_off')) and not sc['dense'] and 0 < h < float('inf') and \
        not any(x[0] in ('until_b', 'unless_b') for x in sg.walk(ast))      # (pastified bounded until = 'precedes': online only, rejected offline)
    if past_off:
        # the combined class, used offline AFTER pastify() (and after an earlier evaluation): the formula is then pure past,
        # so every value is settled at once (horizon 0)
        h = 0
    text = sc['text'] or (common.dense_text(ast) if sc['dense'] else 'out = ' + sg.to_text(ast) + ';')
    desc = {'cls': sc['cls'], 'vars': common.var_decls(sc['vars']), 'spec': text}
    if sc.get('text') and (sc.get('subspecs') or '\n' in text):
        desc['subspecs'] = sc.get('subspecs') or []
        r.probes['modular_specification'] += 1
    if nt:
        desc.update(units.spec_config(nt))
        if units.notation_class(nt) != 'plain':
            r.probes['bounds_with_explicit_units'] += 1
    if past_off:
        k0 = min(3, sc['n'])
        st0 = units.stamps(nt, k0) if nt else list(range(k0))
        desc = dict(desc, cls='dt', pastify=True, prior={'unit': desc.get('unit'), 'sampling': desc.get('sampling'),
                                                         'data': dict((v, sc['data'][v][:k0]) for v in sc['data']), 'times': st0})
        r.probes['pastified_after_an_offline_evaluation'] += 1
    used = sg.vars_of(ast)
    nontriv = False
    try:
        if not sc['dense']:
            n, data = sc['n'], sc['data']
            stamps = units.stamps(nt, n) if nt else list(range(n))
            fdesc = desc
            if sc.get('prior_factor'):
                k = sc['prior_factor']
                samp = list(desc.get('sampling') or [1, 's', 0.1])
                prior = {'unit': desc.get('unit'), 'sampling': [samp[0] * k, samp[1], samp[2]], 'data': data,
                         'times': [t * k for t in stamps]}
                fdesc = dict(desc, prior=prior)
                r.faults['object_used_before_under_another_period'] += 1
            full = [p[1] for p in M.dt_evaluate(M.build(fdesc), stamps, data)]
            r.api_calls += 3
            r.obs.append(full)
            for m in range(1, n):
                r.faults['truncate'] += 1
                r.interleavings.add('dt|n=%d|cut=%d' % (n, m))
                pre = [p[1] for p in M.dt_evaluate(M.build(desc), stamps[:m], dict((v, data[v][:m]) for v in data))]
                r.api_calls += 3
                r.sim_time += m
                if len(pre) != m or len(full) != n:
                    r.violate('one-value-per-sample', spec=text, data=data, cut=m, got_prefix=len(pre), got_extension=len(full))
                    return r
                settled = [t for t in range(m) if t + h < m]
                for t in settled:
                    r.evals += 1
                    if not eqn(pre[t], full[t]):
                        r.violate('settled-value-stable', spec=text, data=data, cut=m, horizon=h, t=t, on_prefix=pre[t],
                                  on_extension=full[t])
                        return r
                if settled and (any(not eqn(pre[t], full[t]) for t in range(m)) or len(set(map(repr, pre[:len(settled)]))) > 1):
                    nontriv = True
                if any(not eqn(pre[t], full[t]) for t in range(m)):
                    r.probes['padding_visible_outside_settled_region'] += 1
                if m == 1:
                    r.probes['truncated_to_one_sample'] += 1
            if sc.get('grow') and n >= 2 and not past_off:
                # the log grows while it is monitored: ONE object, ONE data set (the same dict and the same list objects, extended
                # in place between the calls); every evaluation must agree with the final one on its settled region
                r.faults['log_grown_in_place'] += 1
                r.probes['log_grown_in_place'] += 1
                gspec = M.build(desc)
                ds = {'time': []}
                for v in sorted(data):
                    ds[v] = []
                pts = sorted(set([max(1, n // 3), max(1, (2 * n) // 3), n]))
                have = 0
                for m in pts:
                    ds['time'].extend(stamps[have:m])
                    for v in data:
                        ds[v].extend(data[v][have:m])
                    have = m
                    M._do_failed_use(gspec, times=list(ds['time']))
                    got = [p_[1] for p_ in M.api('evaluate', gspec.evaluate, ds)]
                    r.api_calls += 1
                    if len(got) != m:
                        r.violate('one-value-per-sample', spec=text, data=data, cut=m, got_prefix=len(got), got_extension=n, grown_in_place=True)
                        return r
                    for t in range(m):
                        if t + h < m:
                            r.evals += 1
                            if not eqn(got[t], full[t]):
                                r.violate('settled-value-stable', spec=text, data=data, cut=m, horizon=h, t=t, on_prefix=got[t],
                                          on_extension=full[t], grown_in_place=True)
                                return r
        else:
            sig = sc['signals']
            hh = h * common.DENSE_TICK
            full = M.ct_evaluate(M.build(desc), sig, sc['vars'])
            r.api_calls += 3
            r.obs.append(full)
            ffull = D.from_samples(full)
            cuts = []
            inst = sorted(set(t for v in sc['vars'] for t, _ in sig[v]))
            if sc.get('long_log'):
                inst = []                       # only the drawn truncation points (a cut at each of 2000 instants is too much)
                r.probes['logs_longer_than_1000_samples'] += 1
            for T in inst[:-1]:
                c = dict((v, len([1 for t, _ in sig[v] if t <= T])) for v in sc['vars'])
                if all(c[v] >= 1 for v in sc['vars']):
                    cuts.append(c)
            cuts += [c for c in sc.get('percuts', [])]
            seen = set()
            for c in cuts:
                kc = tuple(c[v] for v in sc['vars'])
                if kc in seen or all(c[v] == len(sig[v]) for v in sc['vars']):
                    continue
                seen.add(kc)
                w1 = dict((v, sig[v][:c[v]]) for v in sc['vars'])
                r.faults['truncate'] += 1
                r.interleavings.add('ct|%s' % (kc,))
                s0 = max(w1[v][0][0] for v in used)
                e1 = min(w1[v][-1][0] for v in used)
                if e1 < s0:
                    continue
                pre = M.ct_evaluate(M.build(desc), w1, sc['vars'])
                r.api_calls += 3
                fpre = D.from_samples(pre)
                if not fpre or not ffull:
                    continue
                lo = max(s0, fpre[0][0], ffull[0][0])
                pts = [t for t in D.check_points([fpre, ffull], lo, max(lo, e1 - hh)) if t + hh < e1]
                r.sim_time += max(0.0, e1 - s0)
                for t in pts:
                    r.evals += 1
                    a, b = D.at(fpre, t), D.at(ffull, t)
                    if not eqn(a, b):
                        r.violate('settled-value-stable', spec=text, signals=sig, cut=c, horizon=hh, t=t, on_prefix=a,
                                  on_extension=b, prefix_output=pre, extension_output=full)
                        return r
                if pts and len(fpre) > 1:
                    nontriv = True
            r.probes['dense_time'] += 1
    except M.ApiCrash as e:
        if not _defined_everywhere(sc):
            # the formula has no defined value (NaN: inf - inf inside iff / xor / arithmetic, a domain error) on the log or on one
            # of its truncations: outside the numeric envelope (DESIGN 3.6); an exception there says nothing about the property
            # (thorough tier, VERIF_SEED 0, run 1178: xor of two warming-up once[0.25,0.25] in dense time - DESIGN 8.2)
            r.discarded = True
            return r
        r.crashes[e.exc_type] += 1
        r.violate('evaluate-raised', spec=text, **e.describe())
        return r
    if h > 0:
        r.probes['horizon_gt_0'] += 1
    else:
        r.probes['pure_past'] += 1
    if nontriv:
        r.nontrivial.add('%s|h=%s|%s|%s' % (sg.shape(ast), h, 'ct' if sc['dense'] else 'dt',
                                            sc.get('n') or sum(len(sc['signals'][v]) for v in sc['vars'])))
    return r


def shrinks(sc):
    if sc.get('long_log'):
        return
    if sc.get('prior_factor'):
        c = copy.deepcopy(sc)
        c['prior_factor'] = None
        yield c
    if sc.get('past_off'):
        c = copy.deepcopy(sc)
        c['past_off'] = False
        yield c
    if sc['dense']:
        for c in common.shrink_dense(sc):
            if not sg.vars_of(c['ast']) or sg.horizon(c['ast']) == float('inf'):
                continue
            c['percuts'] = [dict((v, min(pc[v], len(c['signals'][v]))) for v in c['vars']) for pc in c.get('percuts', [])]
            yield c
    else:
        for c in common.shrink_discrete(sc):
            if sg.horizon(c['ast']) == float('inf') or c['n'] < 2:
                continue
            yield c
