"""C02 - discrete-time online monitor equals offline evaluation at every step.

Run: a past-time specification (sub-trees re-used so the same printed name occurs twice) is hosted on a real online
monitor and stepped through n updates with jittered stamps and permuted input lists; optionally a second monitor
is co-hosted and its updates are interleaved. The recorded log is evaluated by the real offline monitor.
Oracle: i-th update() == offline value at index i (whole log and prefix 0..i); RefDiscrete names the wrong side.
"""
import copy

from .. import specgen as sg
from .. import monitors as M
from .. import world
from ..core import Result
from ..ref.discrete import eval_discrete, RefError
from . import common

ID = 'C02'
LEVEL = 'exploration'
RUNS = {'quick': 40000, 'thorough': 300000}
SIM_TIME_UNIT = 'samples'
RULE = ('seeded generation of (past-time specification with repeated sub-formulas, trace of 1..14 samples, jittered clock, '
        'per-step input permutation, optional co-hosted monitor interleaved); every prefix is a checked history; non-trivial = '
        'reference output finite somewhere and not constant; distinct = distinct (operator skeleton, trace length)')
ASSUMPTIONS = ['offline side is the real offline monitor (fresh object; an object is used either offline or online)',
               'RefDiscrete only arbitrates which side is wrong', 'NaN-producing scenarios are discarded',
               'every variable of the formula is supplied at every step']
REAL = common.REAL_ALL
STUBS = common.STUBS_ALL
PROBES = ['integer_samples_above_2^53', 'same_name_twice', 'cohosted', 'buffer_longer_than_3', 'one_sample_trace', 'declared_unused_var']
INTERLEAVING_MEASURE = 'distinct (co-hosted monitor schedule, per-step first-input permutation) patterns'
STATE_MEASURE = 'distinct digests of the online operator memory (every operation object __dict__) after an update'


def gen(rng, tier):
    big = tier == 'thorough'
    nv = rng.randint(1, 4 if big else 3)
    vars_ = common.VARS[:nv]
    cfg = sg.GenCfg(vars=vars_, ops=common.PAST_OPS, max_depth=rng.randint(2, 6 if big else 5), max_bound=rng.choice([2, 4, 6] + ([8, 10] if big else [])),
                    p_reuse=rng.choice([0.0, 0.33, 0.33, 0.5]), p_near=rng.choice([0.0, 0.0, 0.5]))
    long_windows = rng.random() < 0.03
    if long_windows:
        # second-long bounds at millisecond sampling: windows of 60-130 samples on a log of 70-200 samples
        cfg.max_bound = rng.choice([64, 70, 100, 130])
        cfg.hi_min = 60
        cfg.max_depth = min(cfg.max_depth, 3)
    medium_windows = (not long_windows) and rng.random() < 0.1
    if medium_windows:
        # windows of 9-24 samples on logs of up to three window lengths, quantised signals (plateaus inside one window)
        cfg.max_bound = rng.choice([9, 12, 16, 24])
        cfg.hi_min = 9
        cfg.max_depth = min(cfg.max_depth, 3)
    ast = sg.gen_formula(rng, cfg)
    if rng.random() < 0.2:
        ast = sg.add_operator_twin(rng, ast, set(common.PAST_OPS))      # the same operands under another operator (log/pow, once/historically ...)
    text = 'out = ' + sg.to_text(ast, sg.Spelling(rng)) + ';'
    n = rng.choice([1, 2, 3, 4, 5, 6, 8, 10, 12, 14] + ([18, 24] if big else []))
    if long_windows:
        n = rng.randint(70, 200)
    if medium_windows:
        n = rng.randint(cfg.max_bound, 3 * cfg.max_bound)
    data = world.gen_trace(rng, vars_, n, p_bigint=0.06, style=('plateau' if medium_windows and rng.random() < 0.6 else None))
    if rng.random() < 0.08:
        common.nudge_to_thresholds(rng, ast, data)      # samples on, or a few 1e-8 beside, the constants of the formula
    times, fired = world.faulty_clock(rng, n, kinds=[k for k in ('jitter_in', 'jitter_out', 'offset', 'float_stamps')
                                                      if rng.random() < 0.4])
    orders = []
    for i in range(n):
        o = list(vars_)
        rng.shuffle(o)
        orders.append(o)
    if any(o != list(vars_) for o in orders):
        fired['input_reorder'] = sum(1 for o in orders if o != list(vars_))
    declared = list(vars_)
    if rng.random() < 0.25 and nv < len(common.VARS):
        declared = common.VARS[:nv + 1]       # declared, supplied, but unused by the formula
        fired['surplus_var'] = 1
    co = None
    if rng.random() < 0.3:
        cast = sg.gen_formula(rng, sg.GenCfg(vars=vars_, ops=common.PAST_OPS, max_depth=3))
        co = {'ast': cast, 'sched': [rng.random() < 0.6 for _ in range(n)]}
        fired['interleave'] = sum(co['sched'])
    cls = 'dt_on' if rng.random() < 0.7 else 'dt'
    sc = {'vars': vars_, 'declared': declared, 'ast': ast, 'text': text, 'n': n, 'data': data, 'times': times,
          'orders': orders, 'co': co, 'cls': cls, 'fired': fired}
    common.add_redelivery(rng, sc)
    return sc


def run(sc):
    r = Result()
    ast, n, data, times = sc['ast'], sc['n'], sc['data'], sc['times']
    try:
        ref = eval_discrete(ast, data, n)
    except RefError:
        r.discarded = True
        return r
    r.faults.update(sc.get('fired', {}))
    if any(isinstance(x, int) and abs(x) > 2 ** 53 for v in data for x in data[v]):
        r.probes['integer_samples_above_2^53'] += 1
    text = common.text_of(sc)
    declared = sc.get('declared', sc['vars'])
    surplus = [v for v in declared if v not in sc['vars']]
    full = dict(data)
    for v in surplus:
        full[v] = [0.5] * n
    on_desc = {'cls': sc.get('cls', 'dt_on'), 'vars': common.var_decls(declared), 'spec': text}
    off_cls = 'dt_off' if on_desc['cls'] == 'dt_on' else 'dt'
    off_desc = {'cls': off_cls, 'vars': common.var_decls(declared), 'spec': text}
    # offline on the whole log
    try:
        off = [p[1] for p in M.dt_evaluate(M.build(off_desc), times, full)]
        r.api_calls += 3
    except M.ApiCrash as e:
        r.crashes[e.exc_type] += 1
        r.violate('offline-raised', **e.describe())
        return r
    co = sc.get('co')
    try:
        mon = M.build(on_desc)
        comon = None
        if co:
            comon = M.build({'cls': 'dt_on', 'vars': common.var_decls(sc['vars']),
                             'spec': 'out = ' + sg.to_text(co['ast']) + ';'})
    except M.ApiCrash as e:
        r.crashes[e.exc_type] += 1
        r.violate('parse-raised', spec=text, **e.describe())
        return r
    orders = sc.get('orders') or [list(declared)] * n
    outs = []
    for i in range(n):
        inputs = [(v, full[v][i]) for v in orders[i]] + [(v, full[v][i]) for v in surplus]
        if comon is not None and co['sched'][i]:
            try:
                M.dt_update(comon, times[i], [(v, data[v][i]) for v in sc['vars']])
            except M.ApiCrash as e:
                r.crashes[e.exc_type] += 1   # the co-hosted monitor is only a distractor here
                comon = None
        try:
            v = M.dt_update(mon, times[i], inputs)
            r.api_calls += 1
        except M.ApiCrash as e:
            r.crashes[e.exc_type] += 1
            r.violate('update-raised', step=i, spec=text, **e.describe())
            r.obs.append(['crash', e.exc_type])
            return r
        outs.append(v)
        d = M.state_digest(mon)
        if d:
            r.states.add(d)
        r.evals += 1
        if not M.num_eq(v, off[i]):
            side = 'online' if M.num_eq(off[i], ref[i]) else ('offline' if M.num_eq(v, ref[i]) else 'both')
            r.violate('online-equals-offline', step=i, spec=text, data=data, online=outs, offline=off, ref=ref,
                      wrong_side=side)
            break
    r.obs.append(outs)
    r.sim_time += n
    # prefix evaluations (a difference between prefix and whole log belongs to C16, it is only recorded here)
    if not r.violations and n <= 8:
        for i in range(n):
            try:
                offp = M.dt_evaluate(M.build(off_desc), times[:i + 1], dict((v, full[v][:i + 1]) for v in full))
            except M.ApiCrash as e:
                r.crashes[e.exc_type] += 1
                break
            r.evals += 1
            if not M.num_eq(offp[i][1], outs[i]):
                r.violate('online-equals-offline-on-prefix', step=i, spec=text, data=data, online=outs[i],
                          offline_prefix=offp[i][1])
                break
    if common.count_nontrivial(ref):
        r.nontrivial.add('%s|n=%d' % (sg.shape(ast), n))
    r.interleavings.add('%s|%s' % (''.join('x' if (co and co['sched'][i]) else '.' for i in range(n)),
                                   ''.join(str(sc['vars'].index(o[0])) for o in orders[:n])))
    keys = [sg.key(x) for x in sg.walk(ast) if x[0] not in ('var', 'const')]
    if len(keys) != len(set(keys)):
        r.probes['same_name_twice'] += 1
    if co:
        r.probes['cohosted'] += 1
    if any(x[0] in sg.TUN + sg.TBIN and x[2] > 3 for x in sg.walk(ast)):
        r.probes['buffer_longer_than_3'] += 1
    if n == 1:
        r.probes['one_sample_trace'] += 1
    if surplus:
        r.probes['declared_unused_var'] += 1
    return r


def shrinks(sc):
    def extra(s):
        if s.get('co'):
            c = copy.deepcopy(s)
            c['co'] = None
            yield c
        if s.get('declared') != s['vars']:
            c = copy.deepcopy(s)
            c['declared'] = list(s['vars'])
            yield c
        if s.get('cls') != 'dt_on':
            c = copy.deepcopy(s)
            c['cls'] = 'dt_on'
            yield c
        if s.get('orders'):
            c = copy.deepcopy(s)
            c['orders'] = None
            yield c
    for c in common.shrink_discrete(sc, extra=extra):
        if c.get('orders') and len(c['orders']) != c['n']:
            c['orders'] = None
        if c.get('co') and len(c['co']['sched']) != c['n']:
            c['co'] = None
        # variables of a shrunk formula must stay declared
        yield c
