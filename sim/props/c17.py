"""C17 - well-formed use never crashes; unsupported constructs are rejected cleanly.

Run: a specification for one of the four monitor kinds (online kinds with or without pastify()), either inside the
supported fragment of that kind or with one unsupported construct injected at a random position; well-formed data
with degenerate shapes as faults: one-sample traces, declared-but-unused variables, supplied-but-undeclared
variables, permuted input lists, empty batches.
Oracle (RefSupport table): supported => parse/pastify/evaluate/update/reset return normally; unsupported =>
RTAMTException no later than the first evaluation, no other exception type, and never a value.
The same classification of escaping exceptions runs as a probe inside every other check (evidence key
exceptions_escaping_api_calls).
"""
import copy
import random

from .. import specgen as sg
from .. import monitors as M
from .. import world
from .. import units
from .. import msgs
from ..core import Result
from . import common

ID = 'C17'
LEVEL = 'exploration'
RUNS = {'quick': 60000, 'thorough': 400000}
SIM_TIME_UNIT = 'API calls'
RULE = ('seeded generation of (monitor kind, pastify or not, specification inside the supported fragment or with one injected '
        'unsupported construct, degenerate data shape); non-trivial = an unsupported construct was rejected, or a supported run '
        'used at least one degenerate shape; distinct = distinct (kind, pastify, injected construct or degenerate-shape set, '
        'operator skeleton)')
ASSUMPTIONS = ['RefSupport: discrete offline supports everything; online kinds support no future operator unless pastified, and '
               'then only bounded ones (dense online: not bounded until); dense kinds do not support prev/next/s_prev/s_next/rise/fall',
               'data are well formed: finite values, domains of sqrt/ln/log/pow/division respected, no overflow (checked by the '
               'reference evaluators; such scenarios are discarded)',
               'supplied-but-undeclared variables are only supplied where the API has a named channel for them (dict key / list entry)']
REAL = common.REAL_ALL
STUBS = common.STUBS_ALL
PROBES = ['one_sample_trace', 'declared_unused_var', 'supplied_undeclared_var', 'permuted_inputs', 'empty_batch', 'unsupported_rejected',
          'rejected_at_parse', 'rejected_at_pastify', 'rejected_at_first_evaluation', 'reset_called', 'combined_class',
          'object_reused_for_another_log', 'configured_sampling_period', 'message_typed_variable', 'all_signals_empty']

UNSUPPORTED = {
    # kind, pastify -> constructs that must be rejected
    ('dt_on', False): list(sg.FUTURE_OPS),
    ('dt_on', True): list(sg.UNBOUNDED_FUTURE),
    ('ct_off', False): list(sg.DISCRETE_ONLY),
    ('ct_on', False): list(sg.FUTURE_OPS) + list(sg.EVENT + sg.SHIFT_PAST),
    ('ct_on', True): list(sg.UNBOUNDED_FUTURE) + ['until_b', 'unless_b'] + list(sg.DISCRETE_ONLY),
    ('dt_off', False): [],
}


def supported_ops(kind, pastify):
    base = {'dt_off': set(sg.ALL_OPS), 'dt_on': set(common.PAST_OPS), 'ct_off': set(common.DENSE_OFFLINE_OPS),
            'ct_on': set(common.DENSE_PAST_OPS)}[kind]
    if pastify and kind == 'dt_on':
        base |= {'eventually_b', 'always_b', 'until_b', 'unless_b', 'next', 's_next'}
    if pastify and kind == 'ct_on':
        base |= {'eventually_b', 'always_b'}
    if pastify:
        base = base - {'log'}       # log over a delayed operand raises during the warm-up (known finding F08)
    return base - {'exp', 'pow'}


def base_kind(cls):
    return {'dt': None, 'ct': None}.get(cls, cls)


def gen(rng, tier):
    kind = rng.choice(['dt_off', 'dt_on', 'ct_off', 'ct_on'])
    pastify = kind in ('dt_on', 'ct_on') and rng.random() < 0.5
    cls = kind
    if rng.random() < 0.25:
        cls = 'dt' if kind.startswith('dt') else 'ct'
    dense = kind.startswith('ct')
    nv = rng.randint(1, 3)
    vars_ = common.VARS[:nv]
    ops = supported_ops(kind, pastify)
    for _ in range(100):
        ast = sg.gen_formula(rng, sg.GenCfg(vars=vars_, ops=ops, max_depth=rng.randint(1, 4), max_bound=rng.choice([1, 2, 4]),
                                            p_reuse=rng.choice([0.0, 0.2])))
        if sg.vars_of(ast):
            break
    injected = None
    uns = UNSUPPORTED[(kind, pastify)]
    if uns and rng.random() < 0.45:
        op = rng.choice(uns)
        paths = [p for p, x in sg._subtree_paths(ast)]
        p = paths[rng.randrange(len(paths))]
        sub = ast
        for i in p:
            sub = sg.children(sub)[i]
        if op in sg.TUN:
            lo, hi = sorted([rng.randint(0, 2), rng.randint(0, 3)])
            new = [op, lo, hi, sub]
        elif op in sg.TBIN:
            lo, hi = sorted([rng.randint(0, 2), rng.randint(0, 3)])
            new = [op, lo, hi, sub, ['pred', '>=', ['var', vars_[0]], ['const', 0.0]]]
        elif op in ('until', 'since', 'unless'):
            new = [op, sub, ['pred', '>=', ['var', vars_[0]], ['const', 0.0]]]
        else:
            new = [op, sub]
        ast = sg._replace_at(ast, p, new)
        injected = op
    shapes = []
    declared = list(vars_)
    if rng.random() < 0.3 and nv < 3:
        declared = common.VARS[:nv + 1]
        shapes.append('declared_unused_var')
    extra_supplied = rng.random() < 0.25
    if extra_supplied:
        shapes.append('supplied_undeclared_var')
    sc = {'early_update': rng.random() < 0.25, 'kind': kind, 'cls': cls, 'pastify': pastify, 'vars': vars_, 'declared': declared, 'ast': ast, 'injected': injected,
          'extra_supplied': extra_supplied, 'do_reset': kind in ('dt_on', 'ct_on') and rng.random() < 0.2,
          'spell_seed': rng.randrange(1 << 30)}
    if dense:
        one = rng.random() < 0.25
        sc['signals'] = dict((v, world.gen_dense_signal(rng, 1 if one else rng.randint(1, 6), start_q=0, max_gap_q=4)[0]) for v in declared)
        if one:
            shapes.append('one_sample_trace')
        if kind == 'ct_off' and rng.random() < 0.08:
            # a log in which every sensor is present but has not delivered a single sample
            sc['signals'] = dict((v, []) for v in declared)
            shapes.append('all_signals_empty')
        nb = rng.randint(1, 4)
        # batches may be empty
        sizes = {}
        for v in declared:
            n = len(sc['signals'][v])
            rs = sorted(rng.randrange(nb) for _ in range(n))
            sizes[v] = [rs.count(k) for k in range(nb)]
        sc['sizes'] = sizes
        if kind == 'ct_on' and any(0 in sizes[v] for v in declared):
            shapes.append('empty_batch')
    else:
        n = 1 if rng.random() < 0.25 else rng.randint(1, 8)
        sc['n'] = n
        sc['data'] = world.gen_trace(rng, declared, n)
        if rng.random() < 0.25:
            # a configured sampling period (also given as a Python float) and default unit; bounds written accordingly
            nt = units.gen_notation(rng, p_plain=0.0)
            try:
                sg.to_text(ast, None, units.bounds_printer(nt, random.Random(sc['spell_seed'])))
                sc['notation'] = nt
                shapes.append('configured_sampling_period')
            except ValueError:
                pass
        if n == 1:
            shapes.append('one_sample_trace')
    if kind in ('dt_off', 'ct_off') and rng.random() < 0.3:
        # the same offline object is used again for another log (shorter, same length or longer)
        if dense:
            sc['again'] = dict((v, world.gen_dense_signal(rng, rng.randint(1, 6), start_q=0, max_gap_q=4)[0]) for v in declared)
        else:
            n2 = rng.choice([1, max(1, sc['n'] - 1), max(1, sc['n'] // 2), sc['n'], sc['n'] + 2])
            sc['again'] = {'n': n2, 'data': world.gen_trace(rng, declared, n2)}
        shapes.append('object_reused_for_another_log')
    if rng.random() < 0.12:
        # message-typed variables read through a field path of 1 to 4 attributes
        sc['structs'] = dict((v, rng.choice(msgs.PATHS)) for v in declared if rng.random() < 0.6)
        if sc['structs']:
            shapes.append('message_typed_variable')
    order = list(declared)
    rng.shuffle(order)
    sc['order'] = order
    if order != declared:
        shapes.append('permuted_inputs')
    sc['shapes'] = shapes
    return sc


def expected_unsupported(sc):
    uns = UNSUPPORTED[(sc['kind'], sc['pastify'])]
    return any(x[0] in uns for x in sg.walk(sc['ast']))


def desc_of(sc):
    import random
    dense = sc['kind'].startswith('ct')
    sp = sg.Spelling(random.Random(sc.get('spell_seed', 0)))
    nt = sc.get('notation') if not dense else None
    st = sc.get('structs') or {}
    d = {'cls': sc['cls'], 'vars': [[v, 'Msg' if v in st else 'float'] for v in sc['declared']]}
    if st:
        sc = dict(sc, ast=common.structify(sc['ast'], st))
    if nt:
        try:
            d['spec'] = 'out = ' + sg.to_text(sc['ast'], sp, units.bounds_printer(nt, random.Random(sc.get('spell_seed', 0)))) + ';'
            d.update(units.spec_config(nt))
            return d
        except ValueError:
            pass               # (a shrunk bound that this notation cannot print: plain configuration instead)
    d['spec'] = 'out = ' + sg.to_text(sc['ast'], sp, common.dense_bounds if dense else None) + ';'
    return d


def run(sc):
    r = Result()
    dense = sc['kind'].startswith('ct')
    unsupported = expected_unsupported(sc)
    data = sc['signals'] if dense else sc['data']
    if not unsupported:
        if not common.ref_defined([sc['ast']], dense, data, sc.get('n')):
            r.discarded = True
            return r
    again = sc.get('again')
    if again and not unsupported:
        if not common.ref_defined([sc['ast']], dense, again if dense else again['data'], None if dense else again['n']):
            again = None
    desc = desc_of(sc)
    stamps = units.stamps(sc['notation'], max(sc.get('n', 0), (sc.get('again') or {}).get('n', 0) if not dense else 0)) \
        if (not dense and sc.get('notation') and ('sampling' in desc or 'unit' in desc)) else None
    stage = 'construct'
    value = None
    try:
        spec = M.new_spec(desc)
        stage = 'parse'
        M.api('parse', spec.parse)
        M._late_config(spec)      # (run environment late_config: the configuration is issued after parse())
        if sc.get('early_update') and sc['pastify'] and not unsupported and sc['kind'] in ('dt_on', 'ct_on') \
                and any(x[0] in sg.FUTURE_OPS for x in sg.walk(sc['ast'])):
            # the application calls update() BEFORE pastify(): a bounded-future specification is rejected (that is the clean
            # rejection the property asks for); it then calls pastify() and uses the same object - which must work
            r.faults['rejected_update_before_pastify'] += 1
            try:
                if dense:
                    M.ct_update(spec, dict((v, data[v][:1]) for v in sc['declared']), list(sc['order']))
                else:
                    M.dt_update(spec, 0, [(v, data[v][0]) for v in sc['order']])
                r.violate('unsupported-construct-yielded-a-value', kind=sc['cls'], pastify=False, spec=desc['spec'], stage='update before pastify')
            except M.ApiCrash as e0:
                if not e0.is_rtamt:
                    r.violate('unsupported-construct-wrong-exception', kind=sc['cls'], pastify=False, spec=desc['spec'], **e0.describe())
        if sc['pastify']:
            stage = 'pastify'
            M.api('pastify', spec.pastify)
        stage = 'evaluate'
        r.api_calls += 3
        online = sc['kind'] in ('dt_on', 'ct_on')
        if sc.get('do_reset'):
            M.api('reset', spec.reset)
            r.probes['reset_called'] += 1
        if dense:
            sig = dict(data)
            order = list(sc['order'])
            if sc.get('extra_supplied'):
                sig['zz'] = [[0.0, 1.0], [1.0, 2.0]]
                order = order + ['zz']
            if online:
                nb = len(sc['sizes'][sc['declared'][0]])
                pos = dict((v, 0) for v in sc['declared'])
                value = []
                for k in range(nb):
                    rd = {}
                    for v in sc['declared']:
                        rd[v] = data[v][pos[v]:pos[v] + sc['sizes'][v][k]]
                        pos[v] += sc['sizes'][v][k]
                    if sc.get('extra_supplied'):
                        rd['zz'] = [[float(k), 1.0]]
                    value.append(M.ct_update(spec, rd, order))
                    r.api_calls += 1
                    if sc.get('do_reset') and k == 0:
                        M.api('reset', spec.reset)
                        break
            else:
                value = M.ct_evaluate(spec, sig, order)
                if again:
                    stage = 'evaluate-again'
                    sig2 = dict(again)
                    if sc.get('extra_supplied'):
                        sig2['zz'] = [[0.0, 1.0], [1.0, 2.0]]
                    value = [value, M.ct_evaluate(spec, sig2, order)]
        else:
            n = sc['n']
            if online:
                value = []
                for i in range(n):
                    inp = [(v, data[v][i]) for v in sc['order']]
                    if sc.get('extra_supplied'):
                        inp.append(('zz', 1.0))
                    value.append(M.dt_update(spec, stamps[i] if stamps else i, inp))
                    r.api_calls += 1
                if sc.get('do_reset'):
                    M.api('reset', spec.reset)
            else:
                d = dict(data)
                if sc.get('extra_supplied'):
                    d['zz'] = [1.0] * n
                value = M.dt_evaluate(spec, stamps[:n] if stamps else list(range(n)), d, sc['order'] + (['zz'] if sc.get('extra_supplied') else []))
                if again:
                    stage = 'evaluate-again'
                    d2 = dict(again['data'])
                    if sc.get('extra_supplied'):
                        d2['zz'] = [1.0] * again['n']
                    v2 = M.dt_evaluate(spec, stamps[:again['n']] if stamps else list(range(again['n'])), d2, sc['order'] + (['zz'] if sc.get('extra_supplied') else []))
                    if not isinstance(v2, list) or len(v2) != again['n']:
                        r.violate('supported-use-wrong-shape', kind=sc['cls'], spec=desc['spec'], first_n=n, n=again['n'], got=v2)
                    value = [value, v2]
        stage = 'done'
    except M.ApiCrash as e:
        r.obs.append([stage, e.exc_type])
        r.evals += 1
        if unsupported:
            if e.is_rtamt:
                r.probes['unsupported_rejected'] += 1
                r.probes['rejected_at_' + {'parse': 'parse', 'pastify': 'pastify'}.get(stage, 'first_evaluation')] += 1
                r.nontrivial.add('%s|%s|reject:%s|%s' % (sc['cls'], sc['pastify'], sc.get('injected'), sg.shape(sc['ast'])))
            else:
                r.crashes[e.exc_type] += 1
                r.violate('unsupported-construct-wrong-exception', kind=sc['cls'], pastify=sc['pastify'], spec=desc['spec'],
                          injected=sc.get('injected'), stage=stage, **e.describe())
        else:
            r.crashes[e.exc_type] += 1
            r.violate('supported-use-raised', kind=sc['cls'], pastify=sc['pastify'], spec=desc['spec'], stage=stage,
                      shapes=sc.get('shapes'), data=data, **e.describe())
        return r
    r.obs.append(['ok', value])
    r.evals += 1
    r.sim_time += 1
    if unsupported:
        r.violate('unsupported-construct-yielded-a-value', kind=sc['cls'], pastify=sc['pastify'], spec=desc['spec'],
                  injected=sc.get('injected'), value=value)
        return r
    for s in sc.get('shapes', []):
        r.probes[s] += 1
        r.faults[s] += 1
    if sc['cls'] in ('dt', 'ct'):
        r.probes['combined_class'] += 1
    if sc.get('shapes'):
        r.nontrivial.add('%s|%s|%s|%s' % (sc['cls'], sc['pastify'], ','.join(sorted(sc['shapes'])), sg.shape(sc['ast'])))
    return r


def shrinks(sc):
    dense = sc['kind'].startswith('ct')
    want = expected_unsupported(sc)
    if sc.get('extra_supplied'):
        c = copy.deepcopy(sc)
        c['extra_supplied'] = False
        yield c
    if sc.get('do_reset'):
        c = copy.deepcopy(sc)
        c['do_reset'] = False
        yield c
    if sc.get('structs'):
        c = copy.deepcopy(sc)
        c['structs'] = {}
        yield c
    if sc.get('again'):
        c = copy.deepcopy(sc)
        c['again'] = None
        yield c
    if sc['declared'] != sc['vars'] and not dense:
        c = copy.deepcopy(sc)
        c['declared'] = list(sc['vars'])
        c['order'] = list(sc['vars'])
        c['data'] = dict((v, sc['data'][v]) for v in sc['vars'])
        yield c
    if sc['cls'] != sc['kind']:
        c = copy.deepcopy(sc)
        c['cls'] = sc['kind']
        yield c
    if not dense and sc['n'] > 1:
        c = copy.deepcopy(sc)
        c['n'] = sc['n'] - 1
        c['data'] = dict((v, sc['data'][v][:-1]) for v in sc['data'])
        yield c
    for a2 in sg.shrink_candidates(sc['ast']):
        if not sg.vars_of(a2):
            continue
        c = copy.deepcopy(sc)
        c['ast'] = a2
        if expected_unsupported(c) != want:
            continue
        yield c
