"""Monitor host: builds real rtamt specification objects from an explicit description and wraps every
public-API call so that exceptions are classified instead of propagating into the harness.

Only the public API is used (declare_var/declare_const/add_sub_spec/set_var_io_type/unit/
set_sampling_period/parse/pastify/evaluate/update/reset/get_value/explain/sampling_violation_counter).
"""
import os
import sys
import copy
import logging

REPO = os.environ.get('VERIF_REPO', '/repo')
if REPO not in sys.path[:1]:
    sys.path.insert(0, REPO)

logging.disable(logging.CRITICAL)   # rtamt warns about implicit declarations on every parse

import rtamt  # noqa: E402
from rtamt.exception.exception import RTAMTException  # noqa: E402

assert os.path.realpath(rtamt.__file__).startswith(os.path.realpath(REPO)), \
    'rtamt imported from %s, expected under %s' % (rtamt.__file__, REPO)

INF = float('inf')

CLASSES = {
    'dt_off': lambda sem: rtamt.StlDiscreteTimeOfflineSpecification(),
    'dt_on': lambda sem: rtamt.StlDiscreteTimeOnlineSpecification(),
    'dt': lambda sem: rtamt.StlDiscreteTimeSpecification(semantics=sem),
    'ct_off': lambda sem: rtamt.StlDenseTimeOfflineSpecification(),
    'ct_on': lambda sem: rtamt.StlDenseTimeOnlineSpecification(),
    'ct': lambda sem: rtamt.StlDenseTimeSpecification(semantics=sem),
}

SEMANTICS = {
    'standard': rtamt.Semantics.STANDARD,
    'output-robustness': rtamt.Semantics.OUTPUT_ROBUSTNESS,
    'input-robustness': rtamt.Semantics.INPUT_ROBUSTNESS,
    'output-vacuity': rtamt.Semantics.OUTPUT_VACUITY,
    'input-vacuity': rtamt.Semantics.INPUT_VACUITY,
}


class ApiCrash(Exception):
    """an exception escaped a real API call"""

    def __init__(self, call, exc):
        Exception.__init__(self, '%s raised %s: %s' % (call, type(exc).__name__, exc))
        self.call = call
        self.exc_type = type(exc).__name__
        self.is_rtamt = isinstance(exc, RTAMTException)
        self.msg = str(exc)[:300]

    def describe(self):
        return {'call': self.call, 'type': self.exc_type, 'rtamt': self.is_rtamt, 'msg': self.msg}


class NumericOverflow(Exception):
    """exp/pow of the generated data overflowed the float range inside a real API call: the scenario is outside the
    numeric envelope of DESIGN 3.6 (no property speaks about overflow); the runner discards the run"""


def api(call, fn, *a, **kw):
    """run one real API call; any exception becomes ApiCrash(call, exc)"""
    try:
        return fn(*a, **kw)
    except RecursionError:
        raise
    except OverflowError as e:
        raise NumericOverflow('%s: %s' % (call, e))
    except Exception as e:  # noqa
        raise ApiCrash(call, e)


# ---------------------------------------------------------------------------------------------------
# run environment (set by the runner from scenario['_env']; replayed with the scenario)
#   decor: seed -> the specification texts are decorated in ways that must not change their meaning: line comments after
#          sub-specifications, block comments between tokens, constants and variables (also) declared inside the text
#   omit_idle: True -> in dense-time online update() calls a variable without new samples is left out instead of being
#          passed with an empty batch
#   dense_units: seed -> dense-time specifications are re-written for another default unit (same numbers on the time axis)
#          with explicit, mixed and coarser units on the interval bounds
#   cohost: seed -> every monitor object gets a twin (same requirement, same class) in the same process that receives the
#          same calls with other sample values right before (and, offline, right after) each call of the observed object
#   discrete_units: seed -> discrete-time specifications written in ticks are re-written for another sampling period and
#          default unit, every interval in a unit notation of its own
#   failed_eval: seed -> every offline object first evaluates another, damaged log (a sensor delivers None): the call raises
#          half-way, the exception is swallowed, and the object is then used as if nothing had happened
#   knobs: seed -> every upper-case integer tuning constant (>= 5, named like a limit / size / cache / threshold) found in the rtamt modules (cache sizes, scan limits,
#          pending-queue caps ...) is set to a small value for the run, so that slow paths and evictions run on small inputs
#   reuse_buffers: True -> the caller keeps ONE list object per variable (dense online) / one input list (discrete online) and
#          refills it in place for every update() (buf[:] = new samples): what it handed over earlier changes under the monitor
#   idem_config: seed -> before a drawn update() of an online monitor the application issues its configuration calls again with
#          the very same values (set_sampling_period(p, u, tol), spec.unit = u): nothing may change
#   explained_before: seed -> a discrete-time offline object first evaluates another log and is asked to explain() it
#   reconf: seed -> a discrete-time offline object was first configured with a k-fold sampling period and used on another log,
#          then re-configured to the configuration of the scenario (the 'prior' mechanism of build(), for every check)
#   late_config: True -> objects with a configuration (default unit, sampling period) are configured AFTER parse() instead of before
#   const_bounds: seed -> the numeric interval bounds of every specification text become named constants (API or in-text)
#   empty_poll: seed -> before one drawn dense-time update() (not the first) an update() with an empty batch for every variable
#   surplus_named: seed -> the data set of a discrete-time offline evaluation carries further columns that have the names of
#          the assertions / sub-specifications (a table the results were written back to, a CSV with output columns)

ENV = {}
ENV_FIRED = {}
FAILED_USES = [0]
UNIT_REWRITES = [0]
COHOSTED = [0]
_KNOB_SITES = None
# only names that say "tuning constant": a unit factor or another semantic constant (NS_PER_S = 10**9) must never be shrunk
import re as _re
_KNOB_NAME = _re.compile(r'(LIMIT|MAX|CAP|SIZE|CACHE|CHUNK|BATCH|THRESH|PENDING|BUF|QUEUE|POOL|WINDOW_LEN|DEPTH)')


def _knob_sites():
    global _KNOB_SITES
    if _KNOB_SITES is None:
        import pkgutil
        import importlib
        import inspect
        sites = []
        for m in pkgutil.walk_packages(rtamt.__path__, 'rtamt.'):
            if any(x in m.name for x in ('.antlr', '.enumerations', '.lib', 'cpp', '.parser.')):
                continue
            try:
                mod = importlib.import_module(m.name)
            except Exception:  # noqa
                continue
            holders = [mod] + [c for _, c in inspect.getmembers(mod, inspect.isclass) if getattr(c, '__module__', None) == mod.__name__]
            for h in holders:
                for k, v in list(vars(h).items()):
                    if k.isupper() and len(k) >= 3 and type(v) is int and v >= 5 and _KNOB_NAME.search(k):
                        sites.append((h, k, v))
        _KNOB_SITES = sites
    return _KNOB_SITES


def set_env(env):
    """returns an undo function"""
    global ENV
    ENV = dict(env or {})
    FAILED_USES[0] = 0
    UNIT_REWRITES[0] = 0
    COHOSTED[0] = 0
    ENV_FIRED.clear()
    undo = []
    if ENV.get('knobs') is not None:
        import random
        krng = random.Random(ENV['knobs'])
        for h, k, v in _knob_sites():
            setattr(h, k, krng.choice([1, 2, 3, 4]))
            undo.append((h, k, v))

    def restore():
        global ENV
        for h, k, v in undo:
            setattr(h, k, v)
        ENV = {}
    return restore


def knob_count():
    return len(_knob_sites())


def _decorate(desc):
    """returns (desc', moved_consts, in_text_vars): the same specification, written differently"""
    import random
    drng = random.Random(ENV['decor'])
    d = dict(desc)
    subs = list(d.get('subspecs') or [])
    text = d['spec']
    kinds = [k for k in ('line_comments', 'block_comments', 'decl_in_text') if drng.random() < 0.5] or ['line_comments']
    if 'line_comments' in kinds:
        subs = [(t + '  // requirement %d' % i) if t.rstrip().endswith(';') else t for i, t in enumerate(subs)]
        lines = text.split('\n')
        lines = [(t + '  // see 4.%d' % i) if (t.rstrip().endswith(';') and (i + 1 < len(lines) or drng.random() < 0.5)) else t
                 for i, t in enumerate(lines)]
        text = '\n'.join(lines)
    if 'block_comments' in kinds:
        pos = [i for i, c in enumerate(text) if c == ' ' and '//' not in text[:i].split('\n')[-1]]
        if pos:
            for i in sorted(set(pos[drng.randrange(len(pos))] for _ in range(2)), reverse=True):
                text = text[:i] + ' /* note */ ' + text[i + 1:]
    head = []
    moved = set()
    if 'decl_in_text' in kinds and not subs and '\n' not in d['spec']:
        # declarations inside the text (before the assertions): constants move there, variables are declared there as well
        for c, ty, val in d.get('consts') or []:
            if ty == 'float' and drng.random() < 0.7:
                sval = val if isinstance(val, str) else repr(float(val))
                if sval.replace('.', '').isdigit():
                    head.append('const float %s = %s' % (c, sval))
                    moved.add(c)
        io = d.get('io') or {}
        for v, ty in d.get('vars') or []:
            if ty == 'float' and drng.random() < 0.5:
                head.append('%sfloat %s' % ((io[v] + ' ') if io.get(v) else '', v))
    d['subspecs'] = subs
    d['spec'] = '\n'.join(head + [text])
    d['consts'] = [c for c in (d.get('consts') or []) if c[0] not in moved]
    return d


_IV = None


def _dense_units(desc):
    """run environment 'dense_units': a dense-time specification written for the default unit is re-written, equivalently,
    for spec.unit = ms/us/ns with the SAME numbers on the time axis: each interval keeps its plain numbers, or gets an explicit
    suffix on one or both bounds, or has one or both bounds expressed in the next coarser unit (0.75 ms = 0.00075 s).
    Only conversions that are exact in binary floating point are used (quarter multiples below 50, factor 1000)."""
    global _IV
    import re
    import random
    from fractions import Fraction
    from .specgen import fmt_num
    if _IV is None:
        _IV = re.compile(r'\[\s*([0-9]+(?:\.[0-9]+)?)\s*([,:])\s*([0-9]+(?:\.[0-9]+)?)\s*\]')
    texts = [desc['spec']] + list(desc.get('subspecs') or [])
    if any(re.search(r'\[[^\]]*[A-Za-z][^\]]*\]', t) for t in texts) or not any(_IV.search(t) for t in texts):
        return desc            # bounds with explicit units or named constants are absolute: nothing to re-write
    urng = random.Random(ENV['dense_units'])
    du = urng.choice(['ms', 'us', 'ns'])
    cu = {'ms': 's', 'us': 'ms', 'ns': 'us'}[du]

    def conv(x):
        q = Fraction(x) * 4
        return q.denominator == 1 and q < 200

    def in_cu(x):
        return fmt_num(Fraction(x) / 1000)

    def rw(m):
        a, sep, b = m.group(1), m.group(2), m.group(3)
        styles = ['plain', 'plain', 'both_du', 'end_du', 'begin_du']
        if conv(a) and conv(b):
            # (a unit-less bound inherits the unit of the other bound: in the one-sided styles BOTH numbers are in that unit)
            styles += ['both_cu', 'cu_du', 'du_cu', 'end_cu', 'begin_cu', 'end_cu', 'begin_cu']
        st = styles[urng.randrange(len(styles))]
        ra, rb = {
            'plain': (a, b), 'both_du': (a + du, b + du), 'end_du': (a, b + du), 'begin_du': (a + du, b),
            'both_cu': (in_cu(a) + cu, in_cu(b) + cu), 'cu_du': (in_cu(a) + cu, b + du), 'du_cu': (a + du, in_cu(b) + cu),
            'end_cu': (in_cu(a), in_cu(b) + cu), 'begin_cu': (in_cu(a) + cu, in_cu(b)),
        }[st]
        return '[' + ra + sep + rb + ']'
    d = dict(desc)
    d['spec'] = _IV.sub(rw, desc['spec'])
    d['subspecs'] = [_IV.sub(rw, t) for t in (desc.get('subspecs') or [])]
    d['unit'] = du
    UNIT_REWRITES[0] += 1
    return d


_IVD = None


def _discrete_units(desc):
    """run environment 'discrete_units': a discrete-time specification written in ticks for the default configuration (unit s,
    period 1 s) is re-written, equivalently, for another sampling period / default unit, each interval in a notation of its
    own (sim/units.py: plain, explicit unit on both bounds, on one bound only - the other one inherits it -, two different
    units). The durations stay the same multiples of the sampling period (exact rational arithmetic), so the result must not
    change; the time-stamps of the harness keep their numbers (they only feed the sampling-violation counter, which C13 - the
    only check that reads it against a reference - opts out of)."""
    global _IVD
    import re
    import random
    from . import units as U_
    if _IVD is None:
        _IVD = re.compile(r'\[\s*([0-9]+)\s*([,:])\s*([0-9]+)\s*\]')
    texts = [desc['spec']] + list(desc.get('subspecs') or [])
    ivs = [m for t in texts for m in re.finditer(r'\[[^\]]*\]', t)]
    if not ivs or any(not _IVD.fullmatch(m.group(0)) for m in ivs):
        return desc
    urng = random.Random(ENV['discrete_units'])
    nt = U_.gen_notation(urng, p_plain=0.0)
    ok = [True]

    def rw(m):
        lo, sep, hi = int(m.group(1)), m.group(2), int(m.group(3))
        feas = U_.styles_for(lo, hi, nt)
        if not feas:
            ok[0] = False
            return m.group(0)
        return U_.render_interval(lo, hi, nt, feas[urng.randrange(len(feas))], sep)
    d = dict(desc)
    d['spec'] = _IVD.sub(rw, desc['spec'])
    d['subspecs'] = [_IVD.sub(rw, t) for t in (desc.get('subspecs') or [])]
    if not ok[0]:
        return desc
    d.update(U_.spec_config(nt))
    UNIT_REWRITES[0] += 1
    return d


def _const_bounds(desc):
    """run environment 'const_bounds': every numeric interval bound of the specification texts becomes a named constant
    (`always[0:B0p3 s]`), declared through declare_const() with its decimal text or with a number, or inside the text
    (`const float B0p3 = 0.3`). The durations are the same, so nothing may change - in particular a bound that is a multiple of
    the sampling period stays one (0.3 s at 100 ms)."""
    import re
    import random
    crng = random.Random(ENV['const_bounds'])
    consts = {}

    def one(m):
        num, unit = m.group(1), m.group(2) or ''
        name = 'B' + num.replace('.', 'p')
        consts[name] = num
        return name + ((' ' + unit) if unit else '')

    def interval(m):
        return '[' + re.sub(r'([0-9]+(?:\.[0-9]+)?)(s|ms|us|ns)?', one, m.group(1)) + ']'
    pat = r'\[(\s*[0-9.]+\s*(?:s|ms|us|ns)?\s*[,:]\s*[0-9.]+\s*(?:s|ms|us|ns)?\s*)\]'
    d = dict(desc)
    d['spec'] = re.sub(pat, interval, desc['spec'])
    d['subspecs'] = [re.sub(pat, interval, t) for t in (desc.get('subspecs') or [])]
    have = set(c for c, _, _ in desc.get('consts', []))
    if not consts or (have & set(consts)) or any(re.search(r'\b%s\b' % k, desc['spec']) for k in consts):
        return desc
    how = crng.choice(['api_text', 'api_number', 'in_text'])
    if how == 'in_text' and not d['subspecs']:
        d['spec'] = '\n'.join(['const float %s = %s' % (k, v) for k, v in sorted(consts.items())] + [d['spec']])
    else:
        d['consts'] = list(desc.get('consts', [])) + [[k, 'float', (float(v) if how == 'api_number' else v)] for k, v in sorted(consts.items())]
    ENV_FIRED['const_bounds'] = 1
    return d


def new_spec(desc):
    """construct + declare (no parse)"""
    if ENV.get('dense_units') is not None and desc['cls'] in ('ct', 'ct_off', 'ct_on') and not desc.get('unit') \
            and not desc.get('prior') and not desc.get('_keep_notation'):
        desc = _dense_units(desc)
    if ENV.get('discrete_units') is not None and desc['cls'] in ('dt', 'dt_off', 'dt_on') and not desc.get('unit') \
            and not desc.get('sampling') and not desc.get('prior') and not desc.get('_keep_notation'):
        desc = _discrete_units(desc)
    if ENV.get('const_bounds') is not None:
        desc = _const_bounds(desc)
    if ENV.get('decor') is not None:
        desc = _decorate(desc)
    sem = SEMANTICS[desc.get('semantics', 'standard')]
    spec = api('construct', CLASSES[desc['cls']], sem)
    spec.name = desc.get('name', 'sim')
    structs = set(v for v, ty in desc.get('vars', []) if ty == 'Msg')
    if structs:
        api('import_module', spec.import_module, 'sim.msgs', 'Msg')
    spec._verif_structs = structs          # harness bookkeeping: these variables are fed with Msg objects, read through .value
    for v, ty in desc.get('vars', []):
        api('declare_var', spec.declare_var, v, ty)
    for c, ty, val in desc.get('consts', []):
        api('declare_const', spec.declare_const, c, ty, val)
    io = desc.get('io') or {}
    for v in sorted(io):
        api('set_var_io_type', spec.set_var_io_type, v, io[v])
    def _unit():
        if desc.get('unit'):
            spec.unit = desc['unit']

    def _sampling():
        if desc.get('sampling'):
            p, u, tol = desc['sampling']
            if desc.get('sampling_omit_unit') and u == 's':
                api('set_sampling_period', spec.set_sampling_period, p, tolerance=tol)   # the documented default unit is 's'
            else:
                api('set_sampling_period', spec.set_sampling_period, p, u, tol)
    # the order of the two configuration calls is part of the configuration space
    def _configure():
        if desc.get('sampling_first'):
            _sampling()
            _unit()
        else:
            _unit()
            _sampling()
    if ENV.get('late_config') is not None and (desc.get('unit') or desc.get('sampling')) and not desc.get('_config_now'):
        # run environment 'late_config': the application parses first and configures afterwards (parse(); spec.unit = ...;
        # set_sampling_period(...)) - bounds are durations, nothing may be fixed at parse time
        spec._verif_pending_cfg = _configure
        ENV_FIRED['late_config'] = 1
    else:
        _configure()
    for s in desc.get('subspecs', []):
        api('add_sub_spec', spec.add_sub_spec, s)
    spec.spec = desc['spec']
    spec._verif_cfg = {'unit': desc.get('unit'), 'sampling': desc.get('sampling')}     # harness bookkeeping (idem_config)
    spec._verif_names = _defined_names(desc)
    spec._verif_floats = [v for v, ty in desc.get('vars', []) if ty == 'float']
    spec._verif_cls = desc['cls']
    return spec


def _defined_names(desc):
    import re
    names = []
    for t in [desc['spec']] + list(desc.get('subspecs') or []):
        t = re.sub(r'/\*.*?\*/', ' ', t, flags=re.S)
        t = re.sub(r'//[^\n]*', ' ', t)
        for stmt in t.split(';'):
            m = re.match(r'\s*([A-Za-z_][A-Za-z_0-9]*)\s*=[^=]', stmt)
            if m and m.group(1) not in names:
                names.append(m.group(1))
    return names


def apply_config(spec, old, new):
    """re-configure an existing object from configuration old to new (keys unit, sampling; missing = library default);
    only what differs is touched, like an application that changes one setting"""
    ou, nu = old.get('unit') or 's', new.get('unit') or 's'
    osamp, nsamp = list(old.get('sampling') or [1, 's', 0.1]), list(new.get('sampling') or [1, 's', 0.1])
    cfg = dict(getattr(spec, '_verif_cfg', None) or {})
    if ou != nu:
        spec.unit = nu
        cfg['unit'] = nu
    if osamp != nsamp and hasattr(spec, 'set_sampling_period'):
        api('set_sampling_period', spec.set_sampling_period, nsamp[0], nsamp[1], nsamp[2])
        cfg['sampling'] = nsamp
    spec._verif_cfg = cfg      # (only what was touched: the object may have been re-written by a unit-notation environment)


def _failed_use(spec, desc):
    """run environment 'failed_eval': an offline object first evaluates ANOTHER log in which one sensor delivers None from
    some sample on; evaluate() raises half-way, the application catches the exception and goes on using the object. Nothing
    of the failed evaluation may survive in the object (per-evaluation caches, result tables; counters are C13's business
    and C13 opts out). The damaged log is evaluated right before the first real evaluation and has, half of the time, the
    shape of that real log (same length, same time axis)."""
    if ENV.get('failed_eval') is None or desc['cls'] not in ('dt_off', 'ct_off'):
        return
    vs = [v for v, ty in desc.get('vars', []) if ty == 'float']
    if vs:
        spec._verif_fail_first = (ENV['failed_eval'], desc['cls'], vs)


def _do_failed_use(spec, times=None, signals=None):
    pend = getattr(spec, '_verif_fail_first', None)
    if pend is None:
        return
    spec._verif_fail_first = None
    import random
    seed, cls, vs = pend
    frng = random.Random(seed)
    FAILED_USES[0] += 1
    lat = [x * 0.5 for x in range(-8, 9)]
    same_shape = frng.random() < 0.5
    victim = vs[frng.randrange(len(vs))]
    try:
        if cls == 'dt_off':
            axis = list(times) if (same_shape and times is not None and len(times) >= 1) else list(range(frng.randint(2, 6)))
            n = len(axis)
            at = frng.randrange(n)
            data = dict((v, [lat[frng.randrange(len(lat))] for _ in range(n)]) for v in vs)
            data[victim] = [(None if i >= at else x) for i, x in enumerate(data[victim])]
            api('evaluate', spec.evaluate, dt_dataset(axis, data))
        else:
            if same_shape and signals:
                sig = dict((v, [[s[0], lat[frng.randrange(len(lat))]] for s in signals.get(v, [[0.0, 0.0]])]) for v in vs)
            else:
                n = frng.randint(2, 6)
                sig = dict((v, [[float(i), lat[frng.randrange(len(lat))]] for i in range(n)]) for v in vs)
            at = frng.randrange(max(1, len(sig[victim])))
            sig[victim] = [[t, (None if i >= at else x)] for i, (t, x) in enumerate(sig[victim])]
            api('evaluate', spec.evaluate, *[[v, sig[v]] for v in sorted(sig)])
    except (ApiCrash, NumericOverflow):
        pass


def build(desc):
    if ENV.get('reconf') is not None and not desc.get('prior') and desc['cls'] == 'dt_off' and not desc.get('pastify') \
            and all(ty == 'float' for _, ty in desc.get('vars', [])) and desc.get('vars'):
        # run environment 'reconf': the object has a history under a k-fold sampling period (used on another log), then it is
        # re-configured to the configuration of the scenario; it must behave like a fresh object
        import random
        qrng = random.Random(ENV['reconf'])
        p, u, tol = desc.get('sampling') or [1, 's', 0.1]
        k = qrng.choice([2, 3, 10])
        n = qrng.randint(2, 6)
        lat = [x * 0.5 for x in range(-8, 9)]
        desc = dict(desc, prior={'unit': desc.get('unit'), 'sampling': [p * k, u, tol], 'times': [i * k for i in range(n)],
                                 'data': dict((v, [lat[qrng.randrange(len(lat))] for _ in range(n)]) for v, _ in desc['vars'])})
        ENV_FIRED['reconf'] = 1
    if ENV.get('cohost') is not None and not desc.get('prior'):
        # run environment 'cohost': a second object of the same requirement lives in the same process and is fed the same calls
        # with other sample values, right before and right after every call of the object under observation. Its declared
        # constants have OTHER values, and it is constructed and declared between the construction and the parse() of the
        # observed object (configure A, configure B, parse A, parse B: a table shared between objects is polluted in between)
        spec = new_spec(desc)
        twin = None
        try:
            # (constants that are used as interval bounds keep their value: a window of val + 1 time units may be a million
            #  samples long - seen as 'hang' in the seed sweep of round l, DESIGN 8.2)
            import re
            in_bounds = set(w for t in [desc['spec']] + list(desc.get('subspecs') or []) for iv in re.findall(r'\[[^\]]*\]', t)
                            for w in re.findall(r'[A-Za-z_][A-Za-z_0-9]*', iv))
            twin = new_spec(dict(desc, consts=[[c, ty, (val if c in in_bounds else _other_const(val))] for c, ty, val in desc.get('consts', [])]))
        except (ApiCrash, NumericOverflow):
            pass
        api('parse', spec.parse)
        _late_config(spec)
        if desc.get('pastify'):
            api('pastify', spec.pastify)
        _failed_use(spec, desc)
        if twin is not None:
            try:
                api('parse', twin.parse)
                _late_config(twin)
                if desc.get('pastify'):
                    api('pastify', twin.pastify)
                spec._verif_twin = twin
                COHOSTED[0] += 1
            except (ApiCrash, NumericOverflow):
                pass
        return spec
    spec = _build(desc)
    _failed_use(spec, desc)
    return spec


def _late_config(spec):
    fn = getattr(spec, '_verif_pending_cfg', None)
    if fn is not None:
        spec._verif_pending_cfg = None
        fn()


def build_phased(descs):
    """an application that configures all its objects first (construct, declare variables and constants, assign the text)
    and parses them afterwards: configure A, configure B, parse A, parse B"""
    specs = [new_spec(d) for d in descs]
    for spec, d in zip(specs, descs):
        api('parse', spec.parse)
        _late_config(spec)
        if d.get('pastify'):
            api('pastify', spec.pastify)
        _failed_use(spec, d)
    return specs


def _other_const(val):
    try:
        if isinstance(val, str):
            return repr(float(val) + 1.0)
        return val + 1
    except Exception:  # noqa
        return val


def _other(x):
    if isinstance(x, bool) or not isinstance(x, (int, float)):
        return x
    return x + 1.0 if abs(x) < 1e15 else x


def _twin(spec, fn):
    tw = getattr(spec, '_verif_twin', None)
    if tw is None:
        return
    try:
        fn(tw)
    except (ApiCrash, NumericOverflow):
        pass


def _build(desc):
    """construct, declare, parse and (if asked) pastify.
    desc['prior'] (a fault, not a different specification): the object has a history before it reaches the configuration of
    desc - it was configured with prior['unit'] / prior['sampling'], possibly reset() early (prior['early_reset']) and,
    offline, used once on prior['data']; then it is re-configured. It must behave like a fresh object afterwards."""
    prior = desc.get('prior')
    if not prior:
        spec = new_spec(desc)
        api('parse', spec.parse)
        _late_config(spec)
        if desc.get('pastify'):
            api('pastify', spec.pastify)
        return spec
    d0 = dict((k, v) for k, v in desc.items() if k not in ('prior', 'unit', 'sampling', 'sampling_omit_unit', 'sampling_first'))
    if any(prior.get(k) is not None for k in ('unit', 'sampling', 'spec', 'io')) or desc.get('unit') or desc.get('sampling'):
        # (the second condition: the FIRST configuration is the library default and the final one is not - the object is
        #  going to be re-configured all the same; found as a false alarm of C08 at VERIF_SEED 0 run 1904, DESIGN 8.2)
        d0['_keep_notation'] = True    # (the unit-notation environments never re-write an object that is going to be re-configured;
        #                                 an object with a plain history - early reset, earlier logs - is re-written like a fresh one)
    for k in ('unit', 'sampling'):
        if prior.get(k):
            d0[k] = prior[k]
    if prior.get('spec') is not None:
        # the object was first parsed with ANOTHER specification text (a parameter sweep that re-uses one object)
        d0['spec'] = prior['spec']
        d0['subspecs'] = prior.get('subspecs') or []
    if prior.get('io') is not None:
        d0['io'] = prior['io']        # ... and with other input/output declarations, changed before the second parse()
    d0['_config_now'] = True      # (an object with a history is configured in the order its history says)
    spec = new_spec(d0)
    api('parse', spec.parse)
    if prior.get('early_reset'):
        api('reset', spec.reset)
    if prior.get('data') is not None:
        try:
            dt_evaluate(spec, prior['times'], prior['data'])
        except (ApiCrash, NumericOverflow):
            pass                      # the earlier use may legitimately fail (bounds not multiples of that period, ...)
    if prior.get('signals') is not None:
        try:
            ct_evaluate(spec, prior['signals'], prior.get('order'))
        except (ApiCrash, NumericOverflow):
            pass
    if prior.get('updates') is not None:
        for t, inp in prior['updates']:
            try:
                dt_update(spec, t, inp)
            except (ApiCrash, NumericOverflow):
                pass
    if prior.get('spec') is not None:
        final = _decorate(desc) if ENV.get('decor') is not None else desc
        if prior.get('io') is not None:
            for v in sorted(desc.get('io') or {}):
                api('set_var_io_type', spec.set_var_io_type, v, desc['io'][v])
        for sub in final.get('subspecs') or []:
            api('add_sub_spec', spec.add_sub_spec, sub)
        spec.spec = final['spec']
        api('parse', spec.parse)
        if hasattr(spec, 'reset') and desc['cls'] in ('dt_on', 'ct_on', 'dt', 'ct'):
            try:
                api('reset', spec.reset)       # an online monitor has to be reset after a re-parse
            except ApiCrash:
                if desc['cls'] in ('dt_on', 'ct_on'):
                    raise
    apply_config(spec, prior, desc)
    if prior.get('reset_after'):
        api('reset', spec.reset)          # an online monitor that was used under the earlier configuration starts a new episode
    if desc.get('pastify'):
        api('pastify', spec.pastify)
    return spec


def dt_dataset(times, data, order=None):
    # (a caller that keeps ONE time axis for several logs passes the same list object every time: times is then a SharedAxis)
    ds = {'time': times.axis if isinstance(times, SharedAxis) else list(times)}
    for v in (order or sorted(data)):
        ds[v] = list(data[v])
    return ds


class SharedAxis(object):
    """marks a time column that the caller re-uses (the same list object) for every log it evaluates"""
    def __init__(self, axis):
        self.axis = axis


def _wrap(spec, v, x):
    if v in getattr(spec, '_verif_structs', ()):
        from .msgs import Msg
        return Msg(x)
    return x


def dt_evaluate(spec, times, data, order=None):
    """returns the list of values (one per sample); checks the [t, v] pairing separately"""
    if getattr(spec, '_verif_structs', None):
        data = dict((v, [_wrap(spec, v, x) for x in data[v]]) for v in data)
    ds = dt_dataset(times, data, order)
    _do_failed_use(spec, times=ds['time'])
    _do_explained_before(spec, ds['time'])
    if ENV.get('surplus_named') is not None and not getattr(spec, '_verif_structs', None):
        import random
        srng = random.Random(ENV['surplus_named'])
        for nm in getattr(spec, '_verif_names', []):
            if nm not in ds:
                ds[nm] = [srng.choice([-7.5, 0.0, 3.25, 99.0]) for _ in ds['time']]
                ENV_FIRED['surplus_named'] = 1
    twin_ds = lambda: dict((k, ([_other(x) for x in c] if k != 'time' else list(c))) for k, c in ds.items())
    if not getattr(spec, '_verif_structs', None):
        _twin(spec, lambda tw: api('evaluate', tw.evaluate, twin_ds()))
    out = api('evaluate', spec.evaluate, ds)
    if not getattr(spec, '_verif_structs', None):
        _twin(spec, lambda tw: api('evaluate', tw.evaluate, twin_ds()))
    return out


def _do_explained_before(spec, times):
    if ENV.get('explained_before') is None or getattr(spec, '_verif_explained', False) or not hasattr(spec, 'explain') \
            or getattr(spec, '_verif_cls', None) not in ('dt', 'dt_off') or getattr(spec, '_verif_structs', None):
        return
    spec._verif_explained = True
    vs = getattr(spec, '_verif_floats', [])
    if not vs:
        return
    import random
    xrng = random.Random(ENV['explained_before'])
    axis = list(times) if (len(times) >= 1 and xrng.random() < 0.5) else list(range(xrng.randint(2, 7)))
    lat = [x * 0.5 for x in range(-8, 9)]
    try:
        api('evaluate', spec.evaluate, dt_dataset(axis, dict((v, [lat[xrng.randrange(len(lat))] for _ in axis]) for v in vs)))
        api('explain', spec.explain)
        ENV_FIRED['explained_before'] = 1
    except (ApiCrash, NumericOverflow):
        pass


def _idem_config(spec):
    """run environment 'idem_config': before one drawn update() the application re-issues its configuration with the same values"""
    if ENV.get('idem_config') is None:
        return
    n = getattr(spec, '_verif_nupd', 0)
    spec._verif_nupd = n + 1
    if n != 1 + ENV['idem_config'] % 6:
        return
    cfg = getattr(spec, '_verif_cfg', None) or {}
    how = (ENV['idem_config'] // 6) % 3
    if how in (0, 2) and hasattr(spec, 'set_sampling_period') and getattr(spec, '_verif_cls', '') in ('dt', 'dt_on'):
        p, u, tol = cfg.get('sampling') or [1, 's', 0.1]
        api('set_sampling_period', spec.set_sampling_period, p, u, tol)
        ENV_FIRED['idem_config'] = 1
    if how in (1, 2):
        spec.unit = cfg.get('unit') or 's'
        ENV_FIRED['idem_config'] = 1


def dt_update(spec, t, inputs):
    if getattr(spec, '_verif_structs', None):
        inputs = [(v, _wrap(spec, v, x)) for v, x in inputs]
    else:
        _twin(spec, lambda tw: api('update', tw.update, t, [(v, _other(x)) for v, x in inputs]))
    _idem_config(spec)
    if ENV.get('reuse_buffers'):
        buf = getattr(spec, '_verif_inbuf', None)
        if buf is None:
            buf = spec._verif_inbuf = []
        else:
            ENV_FIRED['reuse_buffers'] = 1
        buf[:] = list(inputs)
        inputs = buf
    return api('update', spec.update, t, inputs)


def ct_evaluate(spec, signals, order=None):
    args = [[v, [[s[0], _wrap(spec, v, s[1])] for s in signals[v]]] for v in (order or sorted(signals))]
    _do_failed_use(spec, signals=signals)
    twin_args = lambda: [[v, [[s[0], _other(s[1])] for s in signals[v]]] for v in (order or sorted(signals))]
    if not getattr(spec, '_verif_structs', None):
        _twin(spec, lambda tw: api('evaluate', tw.evaluate, *twin_args()))
    out = api('evaluate', spec.evaluate, *args)
    if not getattr(spec, '_verif_structs', None):
        _twin(spec, lambda tw: api('evaluate', tw.evaluate, *twin_args()))
    return out


def ct_update(spec, batches, order=None):
    args = [[v, [[s[0], _wrap(spec, v, s[1])] for s in batches[v]]] for v in (order or sorted(batches))]
    if ENV.get('omit_idle'):
        # a sensor without new samples is simply not mentioned in this call - once it has been mentioned in an earlier one
        # (a variable that was never supplied at all is not a supported way of calling update())
        seen = getattr(spec, '_verif_seen', None)
        if seen is None:
            seen = spec._verif_seen = set()
        keep = [a for a in args if a[1] or a[0] not in seen]
        if keep:
            args = keep
    if not getattr(spec, '_verif_structs', None):
        _twin(spec, lambda tw: api('update', tw.update, *[[a[0], [[q[0], _other(q[1])] for q in a[1]]] for a in args]))
    _idem_config(spec)
    polled = []
    if ENV.get('empty_poll') is not None and not getattr(spec, '_verif_structs', None):
        # run environment 'empty_poll': a polling loop that once finds nothing new - before one drawn update() (not the first) the
        # application calls update() with an empty batch for every variable; what that call returns is part of the output stream
        npoll = getattr(spec, '_verif_npoll', 0)
        spec._verif_npoll = npoll + 1
        if npoll == 1 + ENV['empty_poll'] % 3:
            polled = api('update', spec.update, *[[a[0], []] for a in args])
            if not isinstance(polled, list):
                raise ApiCrash('update', TypeError('update returned %r' % (polled,)))
            polled = copy.deepcopy(polled)
            ENV_FIRED['empty_poll'] = 1
    if ENV.get('reuse_buffers'):
        bufs = getattr(spec, '_verif_bufs', None)
        if bufs is None:
            bufs = spec._verif_bufs = {}
        for a in args:
            b = bufs.get(a[0])
            if b is None:
                b = bufs[a[0]] = []
            else:
                ENV_FIRED['reuse_buffers'] = 1
            b[:] = a[1]
            a[1] = b
    out = api('update', spec.update, *args)
    if ENV.get('reuse_buffers'):
        out = copy.deepcopy(out)     # what was returned is observed NOW: `out = a` hands the caller's own buffer back
    if ENV.get('omit_idle'):
        seen.update(a[0] for a in args)       # (only an update the monitor accepted counts as "supplied before")
    if polled and isinstance(out, list):
        out = polled + out
    return out


# ---------------------------------------------------------------------------------------------------
# numeric comparison policy (DESIGN 3.6)

ABS_FLOOR = 1e-13


def num_eq(a, b, rel=1e-9):
    try:
        fa = float(a)
        fb = float(b)
    except (TypeError, ValueError):
        return False
    if fa != fa or fb != fb:
        return False
    if fa == fb:
        return True
    if fa in (INF, -INF) or fb in (INF, -INF):
        return False
    # relative tolerance, with an absolute floor far below the smallest differences the generators produce on purpose
    # (nano-scale samples, constants that differ in the 10th-12th decimal)
    return abs(fa - fb) <= max(rel * max(abs(fa), abs(fb)), ABS_FLOOR)


def list_eq(xs, ys, rel=1e-9):
    if len(xs) != len(ys):
        return False
    return all(num_eq(x, y, rel) for x, y in zip(xs, ys))


def state_digest(spec):
    """digest of the online operator memory, read by introspection (state measure, DESIGN 3.8)"""
    import hashlib
    it = getattr(spec, 'online_interpreter', None)
    d = getattr(it, 'online_operator_dict', None)
    if not d:
        return None
    parts = []
    for name in sorted(d):
        op = d[name]
        parts.append(name + '=' + _dig(op, 0))
    return hashlib.sha256('|'.join(parts).encode()).hexdigest()[:16]


def _dig(o, depth):
    if depth > 6:
        return '...'
    if isinstance(o, (int, float, str, bool)) or o is None:
        return repr(o)
    if isinstance(o, (list, tuple)):
        return '[' + ','.join(_dig(x, depth + 1) for x in o) + ']'
    try:
        import collections
        if isinstance(o, collections.deque):
            return 'dq[' + ','.join(_dig(x, depth + 1) for x in o) + ']'
    except Exception:
        pass
    if hasattr(o, '__dict__'):
        d = o.__dict__
        return type(o).__name__ + '{' + ','.join(k + ':' + _dig(d[k], depth + 1) for k in sorted(d)
                                                 if not k.startswith('comparison') and k != 'semantics') + '}'
    return type(o).__name__
