#!/bin/sh
# adopt_seed.sh <property> <seed-id> "<needs>" : copies the deliverables of a sub-agent from /tmp/seedout/<property>/
# into /verif/seeded/<seed-id>/ with a meta.json, and removes the agent's worktree /tmp/seed_<property>
P="$1"; SID="$2"; NEEDS="$3"; SRC="${4:-/tmp/seedout/$P}"; WT="${5:-/tmp/seed_$P}"
D=/verif/seeded/$SID
mkdir -p $D
git -C $WT diff > $D/patch.diff
cp $SRC/demo.py $D/demo.py
cp $SRC/notes.md $D/notes.md 2>/dev/null
/venv/bin/python - "$P" "$SID" "$NEEDS" <<'PY'
import json, sys
p, sid, needs = sys.argv[1:4]
json.dump({'property': p, 'seed_id': sid, 'needs': needs,
           'origin': 'independent sub-agent given only the property text and a private worktree',
           'confirmed_by': 'tools/run_seeded.py: patch applies to /repo HEAD, pinned suite still 509 passed, demo.py exits 1 with the change and 0 without'},
          open('/verif/seeded/%s/meta.json' % sid, 'w'), indent=1)
PY
git -C /repo worktree remove --force $WT
echo adopted $SID; wc -l $D/patch.diff
