#!/venv/bin/python
"""prints the markdown table of DESIGN.md section 8.3 from evidence/sensitivity.json"""
import json, os
V = os.path.dirname(os.path.dirname(os.path.abspath(__file__)))
rs = json.load(open(os.path.join(V, 'evidence', 'sensitivity.json')))['results']
accepted = {}
import glob
for mf in glob.glob(os.path.join(V, 'seeded', '*', 'meta.json')):
    m = json.load(open(mf))
    if m.get('accepted_miss'):
        accepted[m['seed_id']] = m['accepted_miss']
print('| seeded change | property | what it needs to manifest | suite still green | demo (repo / change) | quick checks that report VIOLATION |')
print('|---|---|---|---|---|---|')
for r in rs:
    others = sorted(k for k, v in r.get('checks', {}).items() if k not in r.get('caught_by', []))
    print('| %s | %s | %s | %s | %s / %s | %s%s |' % (r['seed_id'], r['property'], r.get('needs', ''), 'yes' if r.get('suite_passes') else 'NO',
          r.get('demo_on_repo'), r.get('demo_on_change'), ', '.join(r.get('caught_by', [])) or ('**none** (accepted miss: %s)' % accepted.get(r['seed_id'], 'see 8.3')),
          (' (ran, silent: ' + ', '.join(others) + ')') if others else ''))
