#!/venv/bin/python
"""replaces the sensitivity table of DESIGN.md section 8.3 by the output of tools/sens_table.py (evidence/sensitivity.json)"""
import os, subprocess
V = os.path.dirname(os.path.dirname(os.path.abspath(__file__)))
p = os.path.join(V, 'DESIGN.md')
s = open(p).read()
head = 'After these changes every seeded change is reported by the quick check of its own property (accepted misses are marked):\n'
a = s.index(head) + len(head)
b = s.index('### 8.4 ')
table = subprocess.run([os.path.join(V, 'tools', 'sens_table.py')], capture_output=True, text=True).stdout
table = '\n'.join(l for l in table.splitlines() if l.startswith('|'))
open(p, 'w').write(s[:a] + '\n' + table + '\n\n' + s[b:])
print('table rows:', table.count('\n') - 1)
