#!/bin/sh
# runs the pinned baseline suite on $1 (default /repo); succeeds iff 509 tests pass (cpp tests fail in the baseline too)
R="${1:-/repo}"
cd "$R" && OUT=$(/venv/bin/python -m pytest -q -p no:cacheprovider --timeout=900 --continue-on-collection-errors 2>&1 | tail -1)
echo "$OUT"
echo "$OUT" | grep -q "509 passed"
