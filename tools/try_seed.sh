#!/bin/sh
# try_seed.sh <seed-id> <check> [<check> ...] : applies seeded/<seed-id>/patch.diff to a scratch worktree under /tmp,
# runs the given quick checks against it (no suite run, no demo) and removes the worktree. For iterating on a check.
SID="$1"; shift
WT=/tmp/try_$SID
git -C /repo worktree remove --force $WT >/dev/null 2>&1; rm -rf $WT
git -C /repo worktree add -q --detach $WT HEAD || exit 2
git -C $WT apply /verif/seeded/$SID/patch.diff || exit 2
for P in "$@"; do
  VERIF_REPO=$WT VERIF_EVIDENCE_DIR=/tmp/try_ev VERIF_REPLAY_DIR=/tmp/try_rp /verif/check $P --tier ${TIER:-quick} > /tmp/try_$SID.$P.log 2>&1
  echo "$SID $P rc=$? $(grep -c '^VIOLATION' /tmp/try_$SID.$P.log) violations; $(grep -m1 'clause=' /tmp/try_$SID.$P.log | cut -c1-260)"
done
git -C /repo worktree remove --force $WT; rm -rf /tmp/try_ev /tmp/try_rp
