#!/bin/sh
# try_mut.sh <file> <line> <regex> <replacement> <check> [<check>...] : one source mutation on a scratch worktree, then the given quick checks
F="$1"; L="$2"; RX="$3"; REP="$4"; shift 4
WT=/tmp/try_mut_$$
git -C /repo worktree add -q --detach $WT HEAD || exit 2
/venv/bin/python - "$WT/$F" "$L" "$RX" "$REP" <<'PY'
import sys, re
p, l, rx, rep = sys.argv[1], int(sys.argv[2]), sys.argv[3], sys.argv[4]
lines = open(p).read().split('\n')
new = re.sub(rx, rep, lines[l - 1], count=1)
assert new != lines[l - 1], 'no change: ' + lines[l - 1]
print('   ', lines[l - 1].strip(), ' ->  ', new.strip())
lines[l - 1] = new
open(p, 'w').write('\n'.join(lines))
PY
for P in "$@"; do
  VERIF_REPO=$WT VERIF_EVIDENCE_DIR=/tmp/try_ev_$$ VERIF_REPLAY_DIR=/tmp/try_rp_$$ /verif/check $P --tier quick > /tmp/try_mut.$P.log 2>&1
  echo "$F:$L $P rc=$? $(grep -c '^VIOLATION' /tmp/try_mut.$P.log) violations; $(grep -m1 'clause=' /tmp/try_mut.$P.log | cut -c1-200)"
done
git -C /repo worktree remove --force $WT; rm -rf /tmp/try_ev_$$ /tmp/try_rp_$$
