#!/venv/bin/python
"""Reach of the simulated runs inside rtamt: line coverage of /repo/rtamt (ANTLR-generated code excluded) under N runs of each
check, executed in-process. Lines that no check ever executes are either dead code (e.g. the update_final / final_update family,
which no property mentions) or a blind spot of the generators; the list is triaged by hand in DESIGN.md 8.5.

usage: reach.py [--runs N] [--only C01,C05] [--tier quick]
Writes /verif/evidence/reach.json (per file: executable lines, executed lines, missing line numbers).
"""
import os
import sys
import json

V = os.path.dirname(os.path.dirname(os.path.abspath(__file__)))
sys.path.insert(0, V)
REPO = os.environ.get('VERIF_REPO', '/repo')
sys.path.insert(0, REPO)


def main():
    a = sys.argv[1:]
    runs = int(a[a.index('--runs') + 1]) if '--runs' in a else 400
    tier = a[a.index('--tier') + 1] if '--tier' in a else 'quick'
    manifest = json.load(open(os.path.join(V, 'MANIFEST.json')))
    checks = [c['property_id'] for c in manifest['checks']]
    if '--only' in a:
        checks = a[a.index('--only') + 1].split(',')
    import coverage
    cov = coverage.Coverage(data_file=None, include=[os.path.join(REPO, 'rtamt', '*')],
                            omit=[os.path.join(REPO, 'rtamt', 'antlr', '*'), os.path.join(REPO, 'rtamt', 'lib', '*')])
    cov.start()
    from sim import core
    os.environ['VERIF_RAISE_HARNESS_EXC'] = '1'
    per_check = {}
    for pid in checks:
        prop = core.load_prop(pid)
        n = 0
        bad = 0
        for k in range(runs):
            try:
                sc, res = core.one_run(prop, 0, k, tier)
                n += 1
                if res.violations:
                    bad += 1
            except Exception as e:      # noqa
                bad += 1
        per_check[pid] = {'runs': n, 'failing': bad}
        print(pid, per_check[pid])
        sys.stdout.flush()
    cov.stop()
    out = {}
    tot_exec = tot_miss = 0
    for f in sorted(cov.get_data().measured_files()):
        try:
            _, executable, _, missing, _ = cov.analysis2(f)
        except Exception:
            continue
        rel = os.path.relpath(f, REPO)
        out[rel] = {'executable': len(executable), 'executed': len(executable) - len(missing), 'missing': missing}
        tot_exec += len(executable)
        tot_miss += len(missing)
    # files never imported at all
    for root, _, files in os.walk(os.path.join(REPO, 'rtamt')):
        if '/antlr' in root or '/lib' in root or 'cpp' in root:
            continue
        for fn in files:
            if fn.endswith('.py'):
                rel = os.path.relpath(os.path.join(root, fn), REPO)
                if rel not in out:
                    out[rel] = {'executable': None, 'executed': 0, 'missing': 'file never imported'}
    with open(os.path.join(V, 'evidence', 'reach.json'), 'w') as f:
        json.dump({'note': 'line coverage of rtamt under %d in-process runs of each check (seed 0)' % runs, 'checks': per_check,
                   'executable_lines': tot_exec, 'missing_lines': tot_miss, 'files': out}, f, indent=1, sort_keys=True)
    print('executable %d, never executed %d (%.1f%%)' % (tot_exec, tot_miss, 100.0 * tot_miss / max(1, tot_exec)))


if __name__ == '__main__':
    main()
