#!/venv/bin/python
"""Systematic sensitivity measurement by small source mutations of rtamt.

For every mutation site in the library files the properties anchor (swapped min/max, shifted comparison, off-by-one,
flipped infinity sign, swapped begin/end, dropped negation ...):
  1. a scratch copy of rtamt + tests is made under /tmp/mut/<id> (removed afterwards),
  2. the pinned Python suite is run on it; a mutant that the suite kills is not interesting,
  3. for a mutant that SURVIVES the suite the quick checks relevant for the mutated file are run with
     VERIF_REPO=<scratch> (all checks with MUT_ALL_CHECKS=1) until one reports a VIOLATION.
Writes /verif/evidence/mutation.json: per mutant the outcome, and the list of suite-surviving mutants that no
check reports (candidates for equivalent mutants or blind spots; they are triaged by hand in DESIGN.md 8.4).

usage: mutants.py [--jobs J] [--scale S] [--max N] [--only substring] [--stride K] [--recheck mutation.json [--sample N] [--mapped N]]
"""
import os
import re
import sys
import json
import time
import shutil
import subprocess
from concurrent.futures import ThreadPoolExecutor

V = os.path.dirname(os.path.dirname(os.path.abspath(__file__)))
REPO = '/repo'
PY = '/venv/bin/python'

TARGETS = [
    ('rtamt/semantics/stl/discrete_time/offline/ast_visitor.py', ['C01', 'C16', 'C18', 'C07', 'C12', 'C11', 'C20']),
    ('rtamt/semantics/stl/discrete_time/online/*_operation.py', ['C02', 'C03', 'C18', 'C10', 'C07']),
    ('rtamt/semantics/arithmetic/discrete_time/online/*_operation.py', ['C02', 'C12']),
    ('rtamt/semantics/stl/discrete_time/online/ast_visitor.py', ['C02', 'C17', 'C03']),
    ('rtamt/semantics/stl/dense_time/offline/ast_visitor.py', ['C04', 'C16', 'C18', 'C07', 'C05']),
    ('rtamt/semantics/stl/dense_time/offline/intersection.py', ['C04', 'C05', 'C18']),
    ('rtamt/semantics/stl/dense_time/online/*_operation.py', ['C05', 'C18', 'C10', 'C09']),
    ('rtamt/semantics/stl/dense_time/online/intersection.py', ['C05', 'C18', 'C17']),
    ('rtamt/semantics/arithmetic/dense_time/online/*_operation.py', ['C05', 'C12']),
    ('rtamt/semantics/stl/dense_time/online/ast_visitor.py', ['C05', 'C17']),
    ('rtamt/semantics/iastl/*/*/*.py', ['C06']),
    ('rtamt/semantics/abstract_*.py', ['C02', 'C05', 'C10', 'C13', 'C11', 'C12', 'C17']),
    ('rtamt/semantics/discrete_time_interpreter.py', ['C13', 'C08', 'C03']),
    ('rtamt/semantics/dense_time_interpreter.py', ['C08', 'C04', 'C05']),
    ('rtamt/pastifier/stl/*.py', ['C03', 'C08', 'C09', 'C12', 'C06']),
    ('rtamt/pastifier/ltl/horizon.py', ['C03', 'C09']),
    ('rtamt/explanation/*/discrete_time/*.py', ['C20']),
    ('rtamt/spec/abstract_specification.py', ['C13', 'C08', 'C10', 'C17', 'C03']),
    ('rtamt/syntax/ast/parser/ltl/parser_visitor.py', ['C09', 'C12', 'C01', 'C06']),
    ('rtamt/syntax/ast/parser/stl/parser_visitor.py', ['C08', 'C01', 'C09']),
    ('rtamt/syntax/ast/parser/abstract_ast_parser.py', ['C12', 'C06', 'C09']),
    ('rtamt/syntax/node/*/*.py', ['C06', 'C02', 'C09']),
]

# (name, regex, replacement) applied to one source line; at most one mutation per (line, operator)
OPS = [
    ('min->max', r'\bmin\(', 'max('), ('max->min', r'\bmax\(', 'min('),
    ('<=-><', r'(?<![<>=!])<=(?!=)', '<'), ('>=->>', r'(?<![<>=!])>=(?!=)', '>'),
    ('<-><=', r'(?<![<>=!-])<(?![<>=-])', '<='), ('>->>=', r'(?<![<>=!-])>(?![<>=])', '>='),
    ('==->!=', r'(?<![<>=!])==(?!=)', '!='), ('!=->==', r'!=', '=='),
    ('+1->+0', r'\+ ?1\b', '+ 0'), ('-1->-0', r'- ?1\b', '- 0'), ('+1->+2', r'\+ ?1\b', '+ 2'),
    ('-inf->inf', r'- ?float\(["\']inf["\']\)', 'float("inf")'), ('inf->-inf', r'(?<![-\w] )(?<!-)float\(["\']inf["\']\)', '-float("inf")'),
    ('begin<->end', r'\bbegin\b', 'end'), ('end->begin', r'\bend\b', 'begin'),
    ('left<->right', r'\bsample_left\b', 'sample_right'),
    ('and->or', r'\band\b', 'or'), ('or->and', r'\bor\b', 'and'),
    ('drop-not', r'\bnot ', ''), ('neg-drop', r'= ?- ?(?=[a-z_(])', '= '),
    ('True->False', r'\bTrue\b', 'False'), ('False->True', r'\bFalse\b', 'True'),
    ('[0]->[1]', r'\[0\]', '[1]'), ('[1]->[0]', r'\[1\]', '[0]'), ('[-1]->[0]', r'\[-1\]', '[0]'),
    ('in_vars<->out_vars', r'\bin_vars\b', 'out_vars'),
]


def arg(name, default):
    a = sys.argv[1:]
    return a[a.index(name) + 1] if name in a else default


def sites():
    import glob
    out = []
    seen = set()
    for pat, checks in TARGETS:
        for path in sorted(glob.glob(os.path.join(REPO, pat))):
            rel = os.path.relpath(path, REPO)
            if rel in seen or rel.endswith('__init__.py') or '/cpp/' in rel:
                continue
            seen.add(rel)
            lines = open(path).read().split('\n')
            in_doc = False
            for i, line in enumerate(lines):
                st = line.strip()
                if st.count('"""') % 2 == 1 or st.count("'''") % 2 == 1:
                    in_doc = not in_doc
                    continue
                if in_doc or not st or st.startswith('#') or st.startswith('import ') or st.startswith('from ') \
                        or st.startswith('raise ') or st.startswith('def ') or st.startswith('class ') or 'Exception(' in st \
                        or st.startswith('print') or st.startswith('logging'):
                    continue
                code = line.split('#')[0]
                for name, rx, rep in OPS:
                    m = re.search(rx, code)
                    if not m:
                        continue
                    new = code[:m.start()] + re.sub(rx, rep, code[m.start():], count=1)
                    if new != code:
                        out.append({'file': rel, 'line': i + 1, 'op': name, 'old': line, 'new': new + line[len(code):], 'checks': checks})
    return out


def run_one(idx, mut, all_checks, scale):
    d = '/tmp/mut/%05d' % idx
    shutil.rmtree(d, ignore_errors=True)
    os.makedirs(d)
    res = dict((k, mut[k]) for k in ('file', 'line', 'op'))
    res['old'] = mut['old'].strip()
    res['new'] = mut['new'].strip()
    try:
        shutil.copytree(os.path.join(REPO, 'rtamt'), os.path.join(d, 'rtamt'))
        shutil.copytree(os.path.join(REPO, 'tests'), os.path.join(d, 'tests'))
        path = os.path.join(d, mut['file'])
        lines = open(path).read().split('\n')
        assert lines[mut['line'] - 1] == mut['old']
        lines[mut['line'] - 1] = mut['new']
        open(path, 'w').write('\n'.join(lines))
        c = subprocess.run([PY, '-m', 'py_compile', path], capture_output=True, text=True)
        if c.returncode != 0:
            res['outcome'] = 'does-not-compile'
            return res
        if os.environ.get('MUT_SKIP_SUITE'):
            s = None
            res['suite'] = 'survived in the first pass'
        else:
          s = subprocess.run('cd %s && %s -m pytest -q -x -p no:cacheprovider --timeout=300 tests/python 2>&1 | tail -1' % (d, PY), shell=True,
                           capture_output=True, text=True, timeout=1800)
        if s is not None:
            res['suite'] = s.stdout.strip()[-80:]
        if s is not None and ('509 passed' not in s.stdout or 'failed' in s.stdout):
            res['outcome'] = 'killed-by-suite'
            return res
        order = list(mut['checks']) + ([c for c in all_checks if c not in mut['checks']] if os.environ.get('MUT_ALL_CHECKS') else [])
        env = dict(os.environ, VERIF_REPO=d, VERIF_EVIDENCE_DIR=os.path.join(d, 'ev'), VERIF_REPLAY_DIR=os.path.join(d, 'rp'),
                   VERIF_WORKERS=os.environ.get('MUT_CHECK_WORKERS', '2'), VERIF_RUNS_SCALE=str(scale), VERIF_SEED='0')
        tried = []
        for pid in order:
            p = subprocess.run([os.path.join(V, 'check'), pid, '--tier', 'quick'], env=env, capture_output=True, text=True, cwd=V, timeout=3600)
            tried.append(pid)
            if p.returncode == 1 and 'VIOLATION property=' in p.stdout:
                res['outcome'] = 'caught'
                res['caught_by'] = pid
                res['checks_tried'] = len(tried)
                det = [l.strip()[:240] for l in p.stdout.splitlines() if l.strip().startswith('clause=')][:1]
                res['first'] = det
                return res
            if p.returncode == 2:
                res.setdefault('harness_errors', []).append(pid)
        res['outcome'] = 'not-reported'
        res['checks_tried'] = len(tried)
        return res
    except Exception as e:
        res['outcome'] = 'tool-error'
        res['error'] = repr(e)[:200]
        return res
    finally:
        shutil.rmtree(d, ignore_errors=True)


def main():
    jobs = int(arg('--jobs', '4'))
    scale = float(arg('--scale', '0.5'))
    mx = int(arg('--max', '0'))
    only = arg('--only', '')
    stride = int(arg('--stride', '1'))
    manifest = json.load(open(os.path.join(V, 'MANIFEST.json')))
    all_checks = [c['property_id'] for c in manifest['checks']]
    ms = [m for m in sites() if only in m['file']]
    ms = ms[::stride]
    recheck = arg('--recheck', '')
    if recheck:
        # second pass over the suite-surviving mutants that no mapped check reported: run EVERY check on them
        want = set((r['file'], r['line'], r['op']) for r in json.load(open(recheck))['not_reported'])
        ms = [m for m in sites() if (m['file'], m['line'], m['op']) in want]
        mapped = int(arg('--mapped', '0'))
        if mapped:
            # cheaper second pass: only the first N mapped checks of each file (dense online predicates also get C06)
            for m in ms:
                ck = list(m['checks'])
                if 'predicate_operation' in m['file'] and 'C06' not in ck:
                    ck.insert(1, 'C06')
                m['checks'] = ck[:mapped]
        else:
            os.environ['MUT_ALL_CHECKS'] = '1'
        os.environ['MUT_SKIP_SUITE'] = '1'
        sample = int(arg('--sample', '0'))
        if sample and sample < len(ms):
            import random
            ms = random.Random(20260924).sample(ms, sample)
    if mx:
        ms = ms[:mx]
    print('%d mutation sites' % len(ms))
    sys.stdout.flush()
    t0 = time.time()
    results = []
    with ThreadPoolExecutor(max_workers=jobs) as ex:
        for i, r in enumerate(ex.map(lambda im: run_one(im[0], im[1], all_checks, scale), list(enumerate(ms)))):
            results.append(r)
            if r['outcome'] in ('not-reported', 'tool-error') or i % 25 == 0:
                print(i, r['file'], r['line'], r['op'], r['outcome'], r.get('caught_by', ''), '|', r['new'][:90])
                sys.stdout.flush()
    summ = {}
    for r in results:
        summ[r['outcome']] = summ.get(r['outcome'], 0) + 1
    by_check = {}
    for r in results:
        if r['outcome'] == 'caught':
            by_check[r['caught_by']] = by_check.get(r['caught_by'], 0) + 1
    out = {'note': 'single-line source mutants of rtamt; suite = tests/python (509 tests); checks = quick tier at run scale %s' % scale,
           'wall_s': round(time.time() - t0, 1), 'mutants': len(results), 'summary': summ, 'caught_by_check': by_check,
           'survived_suite': summ.get('caught', 0) + summ.get('not-reported', 0),
           'not_reported': [r for r in results if r['outcome'] == 'not-reported'],
           'all': results}
    with open(os.path.join(os.environ.get('MUT_OUT_DIR', os.path.join(V, 'evidence')), 'mutation_recheck.json' if recheck else 'mutation.json'), 'w') as f:
        json.dump(out, f, indent=1, sort_keys=True)
    print('SUMMARY', summ, 'caught_by_check', by_check, 'wall %.0fs' % (time.time() - t0))


if __name__ == '__main__':
    main()
