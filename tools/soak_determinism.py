#!/venv/bin/python
"""Determinism soak: for every claimed check and many VERIF_SEED values
  (a) the per-run digests (scenario + observations) are computed in two fresh interpreters under different
      PYTHONHASHSEED values and compared,
  (b) the whole batch is run at two worker counts and the aggregated coverage figures are compared.
Writes evidence/determinism.json. usage: soak_determinism.py [--seeds N] [--runs R] [--props C01,C02]
"""
import os
import sys
import json
import time
import shutil
import subprocess
from concurrent.futures import ThreadPoolExecutor

V = os.path.dirname(os.path.dirname(os.path.abspath(__file__)))
FIELDS = ['evaluations', 'distinct_nontrivial', 'fault_kinds_fired', 'distinct_monitor_states', 'distinct_interleavings', 'probes',
          'runs_discarded_reference_undefined', 'real_api_calls', 'exceptions_escaping_api_calls']


def arg(name, default):
    a = sys.argv[1:]
    return a[a.index(name) + 1] if name in a else default


def digests(prop, seed, ks, hashseed):
    env = dict(os.environ, VERIF_SEED=str(seed), PYTHONHASHSEED=str(hashseed))
    p = subprocess.run([os.path.join(V, 'check'), prop, '--digests', ','.join(map(str, ks))], env=env, capture_output=True, text=True,
                       cwd=V, timeout=1800)
    if p.returncode != 0:
        return {'error': p.stderr[-300:]}
    return json.loads(p.stdout.strip().splitlines()[-1])


def batch(prop, seed, runs, workers, tag):
    d = '/tmp/soak_ev_%s_%s_%s' % (prop, seed, tag)
    shutil.rmtree(d, ignore_errors=True)
    env = dict(os.environ, VERIF_SEED=str(seed), VERIF_EVIDENCE_DIR=d, VERIF_REPLAY_DIR=d)
    p = subprocess.run([os.path.join(V, 'check'), prop, '--runs', str(runs), '--workers', str(workers)], env=env, capture_output=True,
                       text=True, cwd=V, timeout=3600)
    try:
        cov = json.load(open(os.path.join(d, prop + '.json')))['coverage']
        out = dict((f, cov.get(f)) for f in FIELDS)
    except Exception as e:
        out = {'error': repr(e)}
    out['rc'] = p.returncode
    shutil.rmtree(d, ignore_errors=True)
    return out


def main():
    nseeds = int(arg('--seeds', '12'))
    runs = int(arg('--runs', '0'))
    manifest = json.load(open(os.path.join(V, 'MANIFEST.json')))
    props = arg('--props', ','.join(c['property_id'] for c in manifest['checks'])).split(',')
    seeds = [1000 + 7919 * i for i in range(nseeds)]
    t0 = time.time()
    report = {'seeds': seeds, 'props': {}}
    bad = 0
    for prop in props:
        heavy = prop in ('C13',)
        ks = list(range(3 if heavy else 25))
        r_ = runs or (8 if heavy else 300)

        def one(seed):
            a = digests(prop, seed, ks, 0)
            b = digests(prop, seed, ks, 4242 + seed)
            c = batch(prop, seed, r_, 3, 'w3')
            d = batch(prop, seed, r_, 16, 'w16')
            return seed, a == b and 'error' not in a, c == d and 'error' not in c, c.get('rc')
        with ThreadPoolExecutor(max_workers=4) as ex:
            res = list(ex.map(one, seeds))
        dig_ok = sum(1 for _, x, _, _ in res if x)
        agg_ok = sum(1 for _, _, y, _ in res if y)
        rcs = sorted(set(rc for _, _, _, rc in res))
        report['props'][prop] = {'seeds': len(seeds), 'runs_digested_per_seed': len(ks), 'digest_pairs_equal': dig_ok,
                                 'runs_per_batch': r_, 'batches_equal_at_3_and_16_workers': agg_ok, 'exit_codes': rcs}
        if dig_ok != len(seeds) or agg_ok != len(seeds) or rcs != [0]:
            bad += 1
        print(prop, report['props'][prop])
        sys.stdout.flush()
    report['wall_s'] = round(time.time() - t0, 1)
    report['all_deterministic_and_clean'] = bad == 0
    with open(os.path.join(V, 'evidence', 'determinism.json'), 'w') as f:
        json.dump(report, f, indent=1, sort_keys=True)
    print('done in %.0fs; problems in %d properties' % (time.time() - t0, bad))
    return 1 if bad else 0


if __name__ == '__main__':
    sys.exit(main())
