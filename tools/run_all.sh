#!/bin/sh
# runs every registered quick (or thorough) check, reports exit codes and wall time
TIER="${1:-quick}"
cd /verif
for p in $(/venv/bin/python -c "import json; print(' '.join(c['property_id'] for c in json.load(open('MANIFEST.json'))['checks']))"); do
  S=$(date +%s)
  OUT=$(./check $p --tier $TIER 2>&1); RC=$?
  E=$(date +%s)
  echo "$p rc=$RC wall=$((E-S))s $(echo "$OUT" | grep -c '^VIOLATION') violations; $(echo "$OUT" | grep -c '^KNOWN-FINDING') known; $(echo "$OUT" | tail -1 | cut -c1-160)"
done
