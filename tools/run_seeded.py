#!/venv/bin/python
"""Applies every seeded change under /verif/seeded/<id>/ to a scratch worktree of /repo (under /tmp, removed
afterwards), confirms that the pinned suite still passes and that the demonstration fails with the change and
passes without it, runs the quick checks with VERIF_REPO=<scratch> and records which checks report a VIOLATION.

usage: run_seeded.py [--all-checks] [--only <seed-id>[,<seed-id>...]] [--tier quick|thorough] [--full]
(without --full each batch stops soon after its first failing run; the failing run and its replay are the same)
Writes /verif/evidence/sensitivity.json (merging with earlier results for seeds not re-run).
"""
import os
import sys
import json
import glob
import time
import shutil
import subprocess

VERIF = os.path.dirname(os.path.dirname(os.path.abspath(__file__)))
PY = '/venv/bin/python'


def sh(cmd, **kw):
    return subprocess.run(cmd, shell=True, capture_output=True, text=True, **kw)


def _write(out_path, results):
    tmp = out_path + '.tmp'
    with open(tmp, 'w') as f:
        json.dump({'note': 'which quick checks report a VIOLATION on each seeded change (scratch copy of /repo, VERIF_REPO); '
                           'verif_commit = the commit of /verif the record was measured at (+ = with uncommitted changes to the machinery)',
                   'results': [results[k] for k in sorted(results)]}, f, indent=1, sort_keys=True)
    os.replace(tmp, out_path)


def main():
    args = sys.argv[1:]
    all_checks = '--all-checks' in args
    only = None
    tier = 'quick'
    if '--only' in args:
        only = args[args.index('--only') + 1].split(',')
    if '--tier' in args:
        tier = args[args.index('--tier') + 1]
    manifest = json.load(open(os.path.join(VERIF, 'MANIFEST.json')))
    claimed = [c['property_id'] for c in manifest['checks']]
    out_path = os.path.join(VERIF, 'evidence', 'sensitivity.json')
    if '--out' in args:
        out_path = args[args.index('--out') + 1]      # (several instances over disjoint parts; merge with --merge afterwards)
    part = None
    if '--part' in args:
        i_, n_ = args[args.index('--part') + 1].split('/')
        part = (int(i_), int(n_))
    if '--merge' in args:
        merged = {}
        for f in [os.path.join(VERIF, 'evidence', 'sensitivity.json')] + args[args.index('--merge') + 1].split(','):
            if os.path.exists(f):
                for r_ in json.load(open(f))['results']:
                    merged[r_['seed_id']] = r_
        _write(os.path.join(VERIF, 'evidence', 'sensitivity.json'), merged)
        print('merged', len(merged), 'records')
        return
    results = {}
    if os.path.exists(out_path):
        try:
            results = dict((r['seed_id'], r) for r in json.load(open(out_path))['results'])
        except Exception:
            results = {}
    seeds = sorted(os.path.dirname(p) for p in glob.glob(os.path.join(VERIF, 'seeded', '*', 'patch.diff')))
    for idx_, d in enumerate(seeds):
        sid = os.path.basename(d)
        if only and sid not in only:
            continue
        if part and idx_ % part[1] != part[0]:
            continue
        meta = json.load(open(os.path.join(d, 'meta.json')))
        wt = '/tmp/seeded_wt_%s' % sid
        sh('git -C /repo worktree remove --force %s' % wt)
        shutil.rmtree(wt, ignore_errors=True)
        r = sh('git -C /repo worktree add -q --detach %s HEAD' % wt)
        rec = {'seed_id': sid, 'property': meta['property'], 'needs': meta.get('needs'), 'tier': tier,
               'verif_commit': sh('git -C %s rev-parse --short HEAD' % VERIF).stdout.strip() + ('+' if sh('git -C %s status --porcelain -- sim check' % VERIF).stdout.strip() else ''),
               'repo_commit': sh('git -C /repo rev-parse --short HEAD').stdout.strip()}
        try:
            ap = sh('git -C %s apply %s' % (wt, os.path.join(d, 'patch.diff')))
            rec['applies'] = ap.returncode == 0
            if ap.returncode != 0:
                rec['error'] = ap.stderr[-300:]
                results[sid] = rec
                continue
            suite = sh('cd %s && %s -m pytest -q -p no:cacheprovider --timeout=900 --continue-on-collection-errors 2>&1 | tail -1' % (wt, PY))
            rec['suite'] = suite.stdout.strip()
            rec['suite_passes'] = '509 passed' in suite.stdout
            demo = os.path.join(d, 'demo.py')
            rec['demo_on_repo'] = sh('%s %s /repo' % (PY, demo), timeout=300).returncode
            rec['demo_on_change'] = sh('%s %s %s' % (PY, demo, wt), timeout=300).returncode
            checks = claimed if all_checks else [p for p in [meta['property']] + meta.get('also_run', []) if p in claimed]
            caught = {}
            for pid in checks:
                t0 = time.time()
                env = dict(os.environ, VERIF_REPO=wt, VERIF_SEED=os.environ.get('VERIF_SEED', '0'))
                env['VERIF_EVIDENCE_DIR'] = '/tmp/seeded_evidence_%s' % sid
                env['VERIF_REPLAY_DIR'] = '/tmp/seeded_replays_%s' % sid
                flag = '/tmp/seeded_stop_%s_%s' % (sid, pid)
                if os.path.exists(flag):
                    os.remove(flag)
                if '--full' not in args:
                    env['VERIF_STOP_FLAG'] = flag      # the batch stops soon after the first failing run (same runs, same order per worker)
                p = subprocess.run([os.path.join(VERIF, 'check'), pid, '--tier', tier], env=env, capture_output=True, text=True,
                                   cwd=VERIF, timeout=7200)
                lines = [l for l in p.stdout.splitlines() if l.startswith('VIOLATION')]
                detail = [l.strip()[:300] for l in p.stdout.splitlines() if l.strip().startswith('clause=')][:2]
                if os.path.exists(flag):
                    os.remove(flag)
                caught[pid] = {'rc': p.returncode, 'violations': len(lines), 'wall_s': round(time.time() - t0, 1), 'first': detail}
            rec['checks'] = caught
            rec['caught_by'] = sorted(k for k, v in caught.items() if v['violations'] > 0 and v['rc'] == 1)
            rec['missed_by_own_check'] = meta['property'] in caught and meta['property'] not in rec['caught_by']
        finally:
            sh('git -C /repo worktree remove --force %s' % wt)
            shutil.rmtree(wt, ignore_errors=True)
            shutil.rmtree('/tmp/seeded_evidence_%s' % sid, ignore_errors=True)
            shutil.rmtree('/tmp/seeded_replays_%s' % sid, ignore_errors=True)
        results[sid] = rec
        print(sid, meta['property'], 'suite_ok=%s' % rec.get('suite_passes'), 'demo(repo,change)=(%s,%s)' % (rec.get('demo_on_repo'), rec.get('demo_on_change')),
              'caught_by=%s' % rec.get('caught_by'))
        sys.stdout.flush()
        _write(out_path, results)
    _write(out_path, results)
    shutil.rmtree('/tmp/seeded_evidence', ignore_errors=True)
    shutil.rmtree('/tmp/seeded_replays', ignore_errors=True)


if __name__ == '__main__':
    main()
