#!/venv/bin/python
"""Regenerates /verif/known_findings.jsonl from the table below (the committed file is what the checks read;
nothing writes it at run time). Commit hashes are looked up in /repo by subject prefix.

record formats:
  fixed: property=<id> <commit> <what failed>            (suppresses nothing)
  open : KNOWN-FINDING, with a witness replay under findings/ and the envelope rule that keeps the region out
         of the random search
"""
import json
import os
import subprocess

HERE = os.path.dirname(os.path.dirname(os.path.abspath(__file__)))

FIXED = [
    ('F01', ['C01', 'C17'], 'fix: discrete-time offline monitor ignored unary minus',
     "discrete offline: '-a', 'ln(a)', 'log(a,b)' and every negative literal evaluated to the last child (x >= -2 was x >= 2)"),
    ('F02', ['C01', 'C13', 'C17'], 'fix: offline evaluate() crashed on one-sample',
     'offline evaluate() on a 1-sample trace raised UnboundLocalError; the offline sampling counter looked at the last gap only'),
    ('F05', ['C17'], 'fix: online update() raised KeyError',
     'online update() with a declared+supplied variable that the formula does not use raised KeyError (discrete and dense)'),
    ('F04', ['C02', 'C09', 'C12'], 'fix: online monitors stepped a repeated',
     'online: a sub-formula occurring twice / a stateful sub-spec was stepped twice per update (out = c; c = prev a returned a)'),
    ('F09a', ['C08'], 'fix: spec.unit had no effect',
     "spec.unit = 'ms' was never forwarded to the AST: unit-less bounds were always read as seconds"),
    ('F09b', ['C08', 'C17'], 'fix: a declared constant used as interval bound',
     "a declared constant as unit-less interval bound raised KeyError 'default' at the first evaluation"),
    ('F09c', ['C08', 'C17'], 'fix: an interval with a unit on the begin bound only',
     "[1s,2] raised KeyError '' (only a unit-less begin bound inherited the other unit)"),
    ('F07a', ['C03'], 'fix: pastify() dropped a bounded historically',
     'pastify(): historically[a,b] next to a deeper sibling was replaced by once[d,d](child)'),
    ('F07d', ['C03'], 'fix: horizon of next/s_next was 0',
     "pastify(): next/s_next had horizon 0, siblings were not delayed ('(next a) and b' became 'a and b')"),
    ('F07c', ['C03'], 'fix: pastify() silently removed unary minus',
     'pastify(): unary minus / ln / log (hence every negative literal) were removed from the specification'),
    ('F07b', ['C03', 'C08'], 'fix: pastify() dropped the units',
     'pastify(): unit suffixes of bounds were dropped (eventually[0,2000ms] became once[0,2000] s) and bounds in different units were added'),
    ('F07e', ['C03', 'C08'], 'fix: pastify() counted next/s_next as one time unit',
     'pastify(): next/s_next delayed siblings by 1 default unit instead of one sampling period (wrong or rejected for period != 1 unit)'),
    ('F14b', ['C04'], 'fix: dense-time offline since lost its first segment',
     'dense offline since / since[a,b]: a result that starts with -inf lost its first segment (output began after the domain start)'),
    ('F13', ['C05', 'C10'], 'fix: dense-time online once[a,b]/historically[a,b] lost a pending interval',
     'dense online once[a,b]/historically[a,b]/since[a,b]: pending interval lost when a batch ended exactly at its begin; results depended on the chunking'),
    ('F16', ['C05', 'C17'], 'fix: dense-time online monitor crashed on unary minus',
     "dense online: unary minus / ln / log (every negative literal, 'a >= -2') raised TypeError (discrete-time operations were imported)"),
    ('F19', ['C05'], 'fix: dense-time online once[a,b]/historically[a,b] mishandled an operand that repeats',
     'dense online: bounded once/historically nested under each other (or inside since[a,b]) and fed in several updates gave decreasing stamps, wrong values or an intersection exception'),
    ('F17', ['C05', 'C17'], 'fix: dense-time online monitor failed from the second update on operators whose operands are all constants',
     "dense online: an operator with only constant operands ('1 - 2', '1 >= 0') raised 'Unexpected case in the intersection' from the second update on"),
    ('F20', ['C05', 'C17'], 'fix: dense-time online binary operations crashed when one operand',
     "dense online: binary operations raised TypeError ('float' object is not subscriptable) when one operand's first interval lies before the other operand's first sample"),
    ('F06', ['C10'], 'fix: reset() of online monitors failed',
     'reset(): AttributeError with sub-specifications, AttributeError before the first update, no reset at all for dense time (operations kept their buffers)'),
    ('F10a', ['C13'], 'fix: sampling-violation counter compared time-stamp gaps with the period in the wrong unit',
     'sampling_violation_counter compared gaps (in the default unit) with the bare number of the period: period 500 ms, unit s, stamps 0,0.5,1 counted every gap'),
    ('F10b', ['C13'], 'fix: StlDiscreteTimeSpecification always reported the online sampling-violation counter',
     'the combined StlDiscreteTimeSpecification reported the online interpreter counter (0) after evaluate()'),
    ('F03', ['C11', 'C12'], 'fix: bounded always/eventually padded their operand list in place',
     "offline bounded always/eventually appended +-inf to the caller's list for short traces; a second evaluate() on the same data differed; get_value(operand) was longer than the trace"),
    ('F04b', ['C12'], 'fix: get_value() raised KeyError for nodes below a repeated sub-formula',
     'online get_value(): KeyError for a name whose node lies below the second occurrence of a repeated sub-formula (regression window of F04, closed)'),
    ('F21', ['C12'], 'fix: after pastify() get_value() of an input variable returned its delayed copy',
     "after pastify() get_value('x') of an input variable returned the delayed once[d,d](x) (-inf, then old samples) instead of the supplied data"),
    ('F09d', ['C08'], 'fix: dense-time monitors converted interval bounds to the default unit with the inverse factor',
     'dense time_unit_transformer multiplied by U[default]/U[bound unit] (inverted): once[0,1000ms] looked 10^6 s back'),
    ('F09e', ['C08', 'C17'], 'fix: pastify() accepted future bounds that are not multiples',
     'pastify() turned eventually[1.4:3.4] (period 1 s) into once[0,2] and the monitor returned values instead of RTAMTException'),
    ('F11a', ['C06'], 'fix: dense-time offline IA-STL monitors always returned -inf',
     "dense offline IA-STL: 'sample == True' on a [t, bool] pair: insensitive predicates were always -inf"),
    ('F11b', ['C06'], 'fix: dense-time online IA-STL dropped truth-value changes',
     'dense online IA-STL: sat() compared a robustness with the previous Boolean; the sample where a predicate becomes true at robustness 0 was dropped'),
    ('F12', ['C17'], 'fix: s_prev and s_next were silently ignored by the dense-time monitors',
     "dense time: 's_prev a' / 's_next a' evaluated as 'a' offline and raised KeyError online instead of RTAMTException"),
    ('F12b', ['C17'], 'fix: pastify() of a dense-time specification silently removed next',
     "dense online with pastify(): 'next a' / 's_next a' were removed by the pastifier and monitored as 'a' instead of being rejected"),
    ('F15a', ['C20'], 'fix: explanation of a variable that occurs several times',
     'explain(): a variable occurring twice kept only the intervals of its last occurrence ((3 >= a) and (a !== -1.5) reported nothing)'),
    ('F15b', ['C20'], 'fix: explanations of rise/fall omitted the previous sample',
     'explain(): rise/fall reported only sample t although they depend on t-1 as well'),
    ('F15c', ['C20'], 'fix: explanation of a violated once[a,b] pointed into the future',
     'explain(): a violated once[a,b] was explained with the window of eventually[a,b] (and only its first interval)'),
    ('F15d', ['C20'], 'fix: explanations treated the antecedent of an implication',
     'explain(): the antecedent of an implication was explained with the polarity of the implication itself'),
    ('F15e', ['C20'], 'fix: explanations of rise/fall explained the operand with one polarity only',
     'explain(): rise/fall explained their operand with one polarity only (fall(always[1,1](a >= 2)) reported nothing)'),
    ('F15f', ['C20'], 'fix: explanations of universally quantified cases looked at the first interval only',
     'explain(): satisfied always/historically and violated eventually/once propagated only the first of several disjoint intervals'),
    ('F22', ['C06'], 'fix: xor nodes did not propagate the input/output variables',
     "IA-STL: Xor nodes did not collect in_vars/out_vars, so a predicate over an operand containing xor was treated as insensitive"),
    ('F23', ['C01', 'C17'], "fix: an untimed 'unless' could not be parsed",
     "'phi unless psi' (grammar + README sugar for always(phi) or (phi until psi)) raised AttributeError in parse(): the optional interval was visited before testing that it is present"),
    ('F24', ['C08', 'C17'], 'fix: pastify() raised TypeError when the sampling period is a float',
     "pastify() with set_sampling_period(0.5, 's'): TypeError from Fraction(float, int) in the sample duration (a regression of the F07e/F09e repairs, found when float periods joined the notations)"),
    ('F25', ['C09'], 'fix: dense-time online monitor returned nothing when a constant is a named sub-specification',
     "dense online: a named constant ('k = 3;' with 'out = x > k') returned [] for ever - the constant's one-time delivery was used up by the assertion k itself (side effect of the F17 repair)"),
    ('F26', ['C20'], 'fix: explain() kept the explanations of an earlier evaluation',
     'explain() after a second evaluate() on another log still reported (and merged) the intervals of the first log: a specification satisfied on the new log reported the old violation'),
    ('F27', ['C20'], 'fix: explain() read the bounds of timed operators as sample counts',
     "explain() passed the bounds of timed operators to the explanation functions as they are written (durations with their units) instead of sample counts: with a sampling period other than one default unit or bounds with explicit units (eventually[250ms,250ms] at 0.25 s sampling) the reported intervals were not a sufficient cause"),
    ('F28', ['C08', 'C09', 'C17'], 'fix: a temporal bound given by a constant with a numeric (float) value',
     "declare_const('B', 'float', 0.1) used as a bound (once[0,B]) at a 100 ms sampling period: the value went through Fraction(Decimal(0.1)), i.e. the binary expansion of the float, and evaluate()/update()/pastify() rejected the specification as 'not a multiple of the sampling period', while the literal [0,0.1] and the constant declared as '0.1' were accepted (found by the run environment const_bounds, round l)"),
]

OPEN = [
    ('F08', 'C03', 'delayed-equals-offline', 'findings/F08-C03.json', 'memory-past-above-delayed',
     'pastified memoryful past operator (rise fall prev s_prev once historically since) above a sub-formula with horizon > 0 '
     'sees the warm-up outputs of the delayed operand, e.g. rise(eventually[0,1] b) at i=1 returns min(-b0, max(b0,b1)) instead of max(b0,b1)'),
    ('F08b', 'C03', 'update-raised', 'findings/F08b-C03.json', 'partial-function-over-delayed',
     'same root cause as F08: log(x, base) over operands with different horizons - the shallower operand is delayed by once[d,d], is -inf '
     'during the first d updates and update() raises ValueError (math domain error), e.g. log(abs(eventually[0,1] a)+1, abs(a)+2)'),
    ('F14a', 'C04', 'starts-at-domain-start', 'findings/F14a-C04.json', 'bounded-op-nonzero-start',
     'dense offline bounded operators anchor their output at time 0 (past) or at start-minus-bound (future) instead of the start of the '
     'input domain when a signal does not start at 0; pinned by test_once_bounded_3 / test_always_bounded (G[0,1] a on [[2,2]] must give '
     '[[1,2]]), so it cannot be repaired without editing the suite; values inside windows that reach before the start differ as well'),
]


def sha(prefix):
    out = subprocess.check_output(['git', '-C', '/repo', 'log', '--format=%h %s']).decode().splitlines()
    for l in out:
        if l.split(' ', 1)[1].startswith(prefix):
            return l.split()[0]
    raise SystemExit('no commit with subject prefix: ' + prefix)


def main():
    lines = []
    for fid, props, prefix, what in FIXED:
        c = sha(prefix)
        for p in props:
            lines.append({'id': fid, 'property': p, 'status': 'fixed', 'commit': c, 'what': what,
                          'record': 'fixed: property=%s %s %s' % (p, c, what)})
    for fid, p, clause, witness, env, what in OPEN:
        assert os.path.exists(os.path.join(HERE, witness)), witness
        lines.append({'id': fid, 'property': p, 'status': 'open', 'clause': clause, 'witness': witness, 'envelope': env,
                      'what': what, 'record': 'KNOWN-FINDING: property=%s %s' % (p, what)})
    with open(os.path.join(HERE, 'known_findings.jsonl'), 'w') as f:
        for l in lines:
            f.write(json.dumps(l, sort_keys=True) + '\n')
    print('%d records' % len(lines))


if __name__ == '__main__':
    main()
