#!/bin/sh
# false-alarm soak: every registered quick check under many VERIF_SEED values; prints one line per non-clean run
# usage: seed_sweep.sh <first> <last> [tier]
A="${1:-1}"; B="${2:-20}"; TIER="${3:-quick}"
DIR="$(cd "$(dirname "$0")/.." && pwd)"
cd "$DIR"
export VERIF_EVIDENCE_DIR="${VERIF_EVIDENCE_DIR:-/tmp/sweep_ev_$$}"
export VERIF_REPLAY_DIR="${VERIF_REPLAY_DIR:-$DIR/replays_sweep}"
BAD=0; N=0
for S in $(seq $A $B); do
  for P in $(/venv/bin/python -c "import json; print(' '.join(c['property_id'] for c in json.load(open('MANIFEST.json'))['checks']))"); do
    OUT=$(VERIF_SEED=$S ./check $P --tier $TIER 2>&1); RC=$?
    N=$((N+1))
    if [ $RC -ne 0 ]; then BAD=$((BAD+1)); echo "NOT-CLEAN seed=$S prop=$P rc=$RC"; echo "$OUT" | grep -A1 "^VIOLATION\|HARNESS" | cut -c1-1500; fi
  done
  echo "seed $S done ($N runs, $BAD not clean)"
done
echo "SWEEP-RESULT runs=$N not_clean=$BAD"
