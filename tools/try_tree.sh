#!/bin/sh
# try_tree.sh <tree> <check> [<check> ...] : runs the given quick checks against another tree (VERIF_REPO=<tree>) without
# touching the committed evidence. Used for behaviour-preserving changes (false-alarm test) and for iterating.
T="$1"; shift
TAG=$(basename $T)
for P in "$@"; do
  VERIF_REPO=$T VERIF_EVIDENCE_DIR=/tmp/tt_ev_$TAG VERIF_REPLAY_DIR=/tmp/tt_rp_$TAG /verif/check $P --tier ${TIER:-quick} > /tmp/tt_$TAG.$P.log 2>&1
  echo "$TAG $P rc=$? $(grep -c '^VIOLATION' /tmp/tt_$TAG.$P.log) violations; $(grep -m1 -E 'clause=|HARNESS' /tmp/tt_$TAG.$P.log | cut -c1-300)"
done
