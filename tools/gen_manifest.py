#!/venv/bin/python
"""Writes MANIFEST.json from the table below (single source of truth for the claimed set)."""
import json, os
HERE = os.path.dirname(os.path.dirname(os.path.abspath(__file__)))

TECH = 'deterministic simulation with fault injection: '
CHECKS = {
 'C01': ('exploration', '4 C01', TECH + 'seeded sensor-clock faults on the time column, refinement against RefDiscrete over the recorded log',
         'Seeded exploration of (specification, trace, faulty sensor clocks); the real offline monitor must equal an independent literal implementation of the README semantics at every sample and must be unaffected by the clock faults. Sampling, not proof.',
         'Trusts sim/ref/discrete.py as the README semantics; NaN-producing cases are discarded; depth<=5, <=3 variables, <=12 samples.'),
 'C02': ('exploration', '4 C02', TECH + 'online monitor stepped through every prefix history under a jittered clock, permuted inputs and a co-hosted monitor; compared with the real offline monitor on the recorded log',
         'Seeded exploration of (past-time specification with repeated sub-formulas, trace, clock jitter, input permutations, interleaved co-hosted monitor); every prefix is a checked history; operator-memory digests are counted as the state measure.',
         'Offline side is the real offline monitor (checked by C01); RefDiscrete arbitrates; <=14 updates, depth<=5.'),
 'C03': ('exploration', '4 C03', TECH + 'pastified monitor stepped online; delayed output compared with the real offline monitor on each prefix; unit notation and sampling period varied',
         'Seeded exploration of (bounded-future specification, unit notation, sampling period, trace); for every i >= h the i-th update must equal offline(original)[i-h] on the prefix; specs without future operators must be unaffected by pastify().',
         'Horizon from RefHorizon; open finding F08: a past operator with unbounded memory above a delayed operand is excluded from the search, one with bounded memory m is compared from update h + m on (common.warmup_extra). A second pastify() between two updates (a use no property specifies) may continue the stream or start a new episode; only an exception or values of neither continuation are reported.'),
 'C04': ('exploration', '4 C04', TECH + 'independent sensor clocks whose sample instants interleave (Allen relations), redundant re-sampling; refinement against RefDense over the recorded signals',
         'Seeded exploration of (dense-time specification, independently sampled signals); output must be non-decreasing in time, start at the common-domain start and denote RefDense at every break-point and mid-point; re-sampling must not change the denoted result.',
         'Trusts sim/ref/dense.py; envelope rule bounded-op-nonzero-start (open finding F14a, pinned by the suite) removes that region.'),
 'C05': ('fault_enumeration', '4 C05', TECH + 'chunking schedules of update() enumerated per sampled (spec, signals): every synchronous frontier splitting up to a cap plus skewed per-variable splittings with empty batches; compared with the real offline monitor',
         'Per sampled (specification, signals) the chunking dimension is enumerated (all 2^(m-1) synchronous splittings when m-1 <= 5 quick / 9 thorough, sampled beyond, plus skewed schedules); every schedule must denote the offline result on the span it covers and all schedules must agree.',
         'Offline side is the real dense offline monitor (checked by C04); all sensors start at 0 (envelope of F14a); F08 envelope (narrowed to unbounded memory) for pastified specs.'),
 'C10': ('fault_enumeration', '4 C10', TECH + 'reset() injected at every position of a pre-history with clock faults (also before the first update and twice); compared step by step with a freshly constructed real monitor',
         'Per sampled (online specification incl. sub-specs / pastified / dense, pre-history, post sequence) reset() is injected at every position 0..m; post outputs and the sampling-violation counter must equal those of a fresh monitor.',
         'Oracle is a fresh real monitor; only supported specifications.'),
 'C06': ('exploration', '4 C06', TECH + 'IA-STL monitors of all four kinds stepped/chunked under every kind of i/o assignment and semantics; refinement against RefDiscrete/RefDense with the predicate hook of the statement',
         'Seeded exploration of (specification, i/o assignment, semantics, monitor kind, data, stepping/chunking); the result must equal the reference with the insensitive-predicate rule; STANDARD must ignore declarations.',
         'Trusts the reference models and the reading that an undeclared variable is an output.'),
 'C07': ('exploration', '4 C07', TECH + 'bounded sensor-noise injection (|eps| < 0.999|rho|, adversarial and random) on the recorded trace; three-valued Boolean reference (RefBool)',
         'Seeded exploration of (iff/xor-free specification, monitor kind, data); sign of the reported robustness versus a Kleene Boolean STL evaluator, and verdict stability of RefBool and of the re-run monitor under injected noise below |rho|.',
         'RefBool is the reference evaluator over {-1,0,+1}; nothing is claimed at rho = 0.'),
 'C08': ('exploration', '4 C08', TECH + 'fleet of real monitors under equivalent unit notations / sampling-period spellings fed the same simulated stream (offline, online, pastified, dense); non-multiple bounds as an injected configuration fault',
         'Seeded exploration of (specification, tick, fleet of equivalent notations, mode, data): identical outputs across the fleet at every step; bounds that are not multiples of the period must raise RTAMTException and never yield a value.',
         'Fleet members are compared with each other; only finite-decimal spellings.'),
 'C09': ('exploration', '4 C09', TECH + 'modular and inlined real monitors of the same kind in lock-step along the same simulated history (stepped / chunked)',
         'Seeded exploration of (specification, decomposition into sub-specs and declared constants, kind, data, schedule): identical outputs at every step.',
         'Both sides are real monitors; NaN/overflow scenarios discarded.'),
 'C11': ('exploration', '4 C11', TECH + 'seeded interleaving of operations of 2-4 co-hosted specification objects that share variable names and caller data objects; argument snapshots; solo replays; fresh interpreters under other PYTHONHASHSEED values',
         'Seeded exploration of (co-hosted objects, shared data, interleaving): arguments unchanged (value and identity), outputs equal solo runs, re-evaluation repeatable, observations identical under other hash seeds (sampled runs + self-test).',
         'Hash-seed leg on ~2.5% of the runs plus the determinism self-test of every check.'),
 'C12': ('exploration', '4 C12', TECH + 'stand-alone real monitors of every named sub-formula stepped in lock-step with the parent monitor; get_value read after every update',
         'Seeded exploration of (modular specification, kind incl. pastified, data): get_value of inputs returns the supplied data, get_value of every name equals the stand-alone monitor at every step.',
         'Oracle is a stand-alone real monitor per name.'),
 'C13': ('fault_enumeration', '4 C13', TECH + 'sensor-clock fault sequences (gap classes inside/below/above/edge/zero/negative/lost) enumerated up to a length bound per sampled configuration; exact-rational counter model',
         'Per sampled (period, units, tolerance) every gap-class sequence up to length 3 (quick) / 4 (thorough) plus sampled longer ones; counter after every update and after a first evaluate() equals RefCounter; outputs unaffected by jitter.',
         'Edge classes only with dyadic arithmetic; otherwise a relative margin of 1e-3 from the tolerance edges.'),
 'C16': ('fault_enumeration', '4 C16', TECH + 'log truncation injected at every sample index (discrete) / every common cut and sampled per-variable cuts (dense); real offline monitor on prefix vs extension',
         'Per sampled (specification without unbounded future, log) the truncation point is enumerated; values with t + h inside the prefix must not change.',
         'Horizon from RefHorizon; dense sensors start at 0 when bounded operators are present (F14a).'),
 'C17': ('exploration', '4 C17', TECH + 'degenerate data shapes as injected faults (one-sample traces, surplus variables, permuted inputs, empty batches) and injected unsupported constructs; exception classification against a support table; the same probe runs inside every other check',
         'Seeded exploration of (kind, pastify, supported or unsupported specification, degenerate shape): supported use returns normally, unsupported constructs raise RTAMTException no later than the first evaluation and never yield a value.',
         'RefSupport table in sim/props/c17.py; well-formed data guaranteed by the reference evaluators.'),
 'C18': ('exploration', '4 C18', TECH + 'both sides of each law hosted as two real monitors of the same kind kept in lock-step along the same simulated history / chunking',
         'Seeded exploration of (law, operands, bounds, kind, data, schedule): identical signals of the two sides.',
         'No reference model; kinds that support both sides only.'),
 'C20': ('exploration', '4 C20', TECH + 'corruption of every sample outside the explanation (extremes, predicate thresholds, random) injected after explain(); RefDiscrete and the real monitor decide whether the corrupted trace is satisfied',
         'Seeded exploration of (specification in the explainer fragment, trace): for violated traces 24 corruptions of the unreported samples must not make rho(0) > 0; for satisfied traces nothing may be reported.',
         'Counterexample only when rho(0) > 0 strictly by both RefDiscrete and the real monitor; default sampling period and unit-less bounds.'),
}
NA = {
 'C14': 'parse() is a pure function of one string: no schedule, clock, state or fault dimension for a simulator to own (DESIGN 2).',
 'C15': 'spelling variants are resolved at parse time into the same AST; nothing a schedule, clock or fault can influence (DESIGN 2). Spellings are still randomised in every generated specification.',
 'C19': 'the statement assumes away every fault the simulator could inject (grid-aligned break-points and bounds, offline only): a differential test of two pure functions (DESIGN 2).',
}
ALL = ['C%02d' % i for i in range(1, 21)]
PENDING = dict((p, 'check not built yet at this commit (planned, DESIGN.md section 4); will be claimed once its simulated check exists') for p in ALL if p not in CHECKS and p not in NA)

def main():
    checks = []
    for pid in sorted(CHECKS):
        level, ref, tech, text, note = CHECKS[pid]
        checks.append({
            'property_id': pid,
            'quick_cmd': './check %s --tier quick' % pid,
            'thorough_cmd': './check %s --tier thorough' % pid,
            'evidence_file': '/verif/evidence/%s.json' % pid,
            'replay_cmd_template': './check %s --replay {path}' % pid,
            'engine': 'sim',
            'level_claimed': {'category': level, 'text': text, 'design_ref': 'DESIGN.md section ' + ref},
            'level_note': note,
            'technique': tech,
        })
    na = [{'property_id': p, 'reason': NA[p]} for p in sorted(NA)]
    na += [{'property_id': p, 'reason': PENDING[p]} for p in sorted(PENDING)]
    m = {
        'version': 1,
        'setup_cmd': "cd /verif && /venv/bin/python -c \"import sys; sys.path.insert(0, '/repo'); import antlr4, rtamt; print('rtamt from', rtamt.__file__)\"",
        'hooks': {
            'guard': 'RTAMT_VERIF',
            'enable': 'no hooks were needed: every seam is at the public API and operator state is read by introspection; the guard name is reserved only',
            'baseline_off_cmd': 'cd /repo && /venv/bin/python -m pytest -ra -q -p no:cacheprovider --timeout=900 --continue-on-collection-errors',
            'source_commits': [],
            'add_only': True,
        },
        'engines': [{'name': 'sim', 'path': '/verif/sim', 'serves_properties': sorted(CHECKS),
                     'kind_free_text': 'own deterministic simulator in Python: seeded scenario generator, explicit JSON scenarios (= replay files), fault injection (clock, chunking, reset, truncation, noise, corruption, interleaving, hash seed), reference models, shrinker'}],
        'checks': checks,
        'not_applicable': sorted(na, key=lambda x: x['property_id']),
        'notes': 'See DESIGN.md. Exit 0 held / 1 VIOLATION / 2 harness error. Known findings in known_findings.jsonl.',
    }
    with open(os.path.join(HERE, 'MANIFEST.json'), 'w') as f:
        json.dump(m, f, indent=1)
        f.write('\n')

if __name__ == '__main__':
    main()
