#!/venv/bin/python
"""Writes MANIFEST.json from the table below (single source of truth for the claimed set)."""
import json, os
HERE = os.path.dirname(os.path.dirname(os.path.abspath(__file__)))

TECH = 'deterministic simulation with fault injection: '
CHECKS = {
 'C01': ('exploration', '4 C01', TECH + 'seeded sensor-clock faults on the time column, refinement against RefDiscrete over the recorded log',
         'Seeded exploration of (specification, trace, faulty sensor clocks); the real offline monitor must equal an independent literal implementation of the README semantics at every sample and must be unaffected by the clock faults. Sampling, not proof.',
         'Trusts sim/ref/discrete.py as the README semantics; NaN-producing cases are discarded; depth<=5, <=3 variables, <=12 samples.'),
}
NA = {
 'C14': 'parse() is a pure function of one string: no schedule, clock, state or fault dimension for a simulator to own (DESIGN 2).',
 'C15': 'spelling variants are resolved at parse time into the same AST; nothing a schedule, clock or fault can influence (DESIGN 2). Spellings are still randomised in every generated specification.',
 'C19': 'the statement assumes away every fault the simulator could inject (grid-aligned break-points and bounds, offline only): a differential test of two pure functions (DESIGN 2).',
}
ALL = ['C%02d' % i for i in range(1, 21)]
PENDING = dict((p, 'check not built yet at this commit (planned, DESIGN.md section 4); will be claimed once its simulated check exists') for p in ALL if p not in CHECKS and p not in NA)

def main():
    checks = []
    for pid in sorted(CHECKS):
        level, ref, tech, text, note = CHECKS[pid]
        checks.append({
            'property_id': pid,
            'quick_cmd': './check %s --tier quick' % pid,
            'thorough_cmd': './check %s --tier thorough' % pid,
            'evidence_file': '/verif/evidence/%s.json' % pid,
            'replay_cmd_template': './check %s --replay {path}' % pid,
            'engine': 'sim',
            'level_claimed': {'category': level, 'text': text, 'design_ref': 'DESIGN.md section ' + ref},
            'level_note': note,
            'technique': tech,
        })
    na = [{'property_id': p, 'reason': NA[p]} for p in sorted(NA)]
    na += [{'property_id': p, 'reason': PENDING[p]} for p in sorted(PENDING)]
    m = {
        'version': 1,
        'setup_cmd': "cd /verif && /venv/bin/python -c \"import sys; sys.path.insert(0, '/repo'); import antlr4, rtamt; print('rtamt from', rtamt.__file__)\"",
        'hooks': {
            'guard': 'RTAMT_VERIF',
            'enable': 'no hooks were needed: every seam is at the public API and operator state is read by introspection; the guard name is reserved only',
            'baseline_off_cmd': 'cd /repo && /venv/bin/python -m pytest -ra -q -p no:cacheprovider --timeout=900 --continue-on-collection-errors',
            'source_commits': [],
            'add_only': True,
        },
        'engines': [{'name': 'sim', 'path': '/verif/sim', 'serves_properties': sorted(CHECKS),
                     'kind_free_text': 'own deterministic simulator in Python: seeded scenario generator, explicit JSON scenarios (= replay files), fault injection (clock, chunking, reset, truncation, noise, corruption, interleaving, hash seed), reference models, shrinker'}],
        'checks': checks,
        'not_applicable': sorted(na, key=lambda x: x['property_id']),
        'notes': 'See DESIGN.md. Exit 0 held / 1 VIOLATION / 2 harness error. Known findings in known_findings.jsonl.',
    }
    with open(os.path.join(HERE, 'MANIFEST.json'), 'w') as f:
        json.dump(m, f, indent=1)
        f.write('\n')

if __name__ == '__main__':
    main()
