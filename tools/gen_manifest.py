#!/venv/bin/python
"""Writes MANIFEST.json from the table below (single source of truth for the claimed set)."""
import json, os
HERE = os.path.dirname(os.path.dirname(os.path.abspath(__file__)))

TECH = 'deterministic simulation with fault injection: '
CHECKS = {
 'C01': ('exploration', '4 C01', TECH + 'seeded sensor-clock faults on the time column, refinement against RefDiscrete over the recorded log',
         'Seeded exploration of (specification, trace, faulty sensor clocks); the real offline monitor must equal an independent literal implementation of the README semantics at every sample and must be unaffected by the clock faults. Sampling, not proof.',
         'Trusts sim/ref/discrete.py as the README semantics; NaN-producing cases are discarded; depth<=5, <=3 variables, <=12 samples.'),
 'C02': ('exploration', '4 C02', TECH + 'online monitor stepped through every prefix history under a jittered clock, permuted inputs and a co-hosted monitor; compared with the real offline monitor on the recorded log',
         'Seeded exploration of (past-time specification with repeated sub-formulas, trace, clock jitter, input permutations, interleaved co-hosted monitor); every prefix is a checked history; operator-memory digests are counted as the state measure.',
         'Offline side is the real offline monitor (checked by C01); RefDiscrete arbitrates; <=14 updates, depth<=5.'),
 'C03': ('exploration', '4 C03', TECH + 'pastified monitor stepped online; delayed output compared with the real offline monitor on each prefix; unit notation and sampling period varied',
         'Seeded exploration of (bounded-future specification, unit notation, sampling period, trace); for every i >= h the i-th update must equal offline(original)[i-h] on the prefix; specs without future operators must be unaffected by pastify().',
         'Horizon from RefHorizon; envelope rule memory-past-above-delayed (open finding F08) removes that region from the search.'),
 'C04': ('exploration', '4 C04', TECH + 'independent sensor clocks whose sample instants interleave (Allen relations), redundant re-sampling; refinement against RefDense over the recorded signals',
         'Seeded exploration of (dense-time specification, independently sampled signals); output must be non-decreasing in time, start at the common-domain start and denote RefDense at every break-point and mid-point; re-sampling must not change the denoted result.',
         'Trusts sim/ref/dense.py; envelope rule bounded-op-nonzero-start (open finding F14a, pinned by the suite) removes that region.'),
 'C05': ('fault_enumeration', '4 C05', TECH + 'chunking schedules of update() enumerated per sampled (spec, signals): every synchronous frontier splitting up to a cap plus skewed per-variable splittings with empty batches; compared with the real offline monitor',
         'Per sampled (specification, signals) the chunking dimension is enumerated (all 2^(m-1) synchronous splittings when m-1 <= 5 quick / 9 thorough, sampled beyond, plus skewed schedules); every schedule must denote the offline result on the span it covers and all schedules must agree.',
         'Offline side is the real dense offline monitor (checked by C04); all sensors start at 0 (envelope of F14a); F08 envelope for pastified specs.'),
 'C10': ('fault_enumeration', '4 C10', TECH + 'reset() injected at every position of a pre-history with clock faults (also before the first update and twice); compared step by step with a freshly constructed real monitor',
         'Per sampled (online specification incl. sub-specs / pastified / dense, pre-history, post sequence) reset() is injected at every position 0..m; post outputs and the sampling-violation counter must equal those of a fresh monitor.',
         'Oracle is a fresh real monitor; only supported specifications.'),
}
NA = {
 'C14': 'parse() is a pure function of one string: no schedule, clock, state or fault dimension for a simulator to own (DESIGN 2).',
 'C15': 'spelling variants are resolved at parse time into the same AST; nothing a schedule, clock or fault can influence (DESIGN 2). Spellings are still randomised in every generated specification.',
 'C19': 'the statement assumes away every fault the simulator could inject (grid-aligned break-points and bounds, offline only): a differential test of two pure functions (DESIGN 2).',
}
ALL = ['C%02d' % i for i in range(1, 21)]
PENDING = dict((p, 'check not built yet at this commit (planned, DESIGN.md section 4); will be claimed once its simulated check exists') for p in ALL if p not in CHECKS and p not in NA)

def main():
    checks = []
    for pid in sorted(CHECKS):
        level, ref, tech, text, note = CHECKS[pid]
        checks.append({
            'property_id': pid,
            'quick_cmd': './check %s --tier quick' % pid,
            'thorough_cmd': './check %s --tier thorough' % pid,
            'evidence_file': '/verif/evidence/%s.json' % pid,
            'replay_cmd_template': './check %s --replay {path}' % pid,
            'engine': 'sim',
            'level_claimed': {'category': level, 'text': text, 'design_ref': 'DESIGN.md section ' + ref},
            'level_note': note,
            'technique': tech,
        })
    na = [{'property_id': p, 'reason': NA[p]} for p in sorted(NA)]
    na += [{'property_id': p, 'reason': PENDING[p]} for p in sorted(PENDING)]
    m = {
        'version': 1,
        'setup_cmd': "cd /verif && /venv/bin/python -c \"import sys; sys.path.insert(0, '/repo'); import antlr4, rtamt; print('rtamt from', rtamt.__file__)\"",
        'hooks': {
            'guard': 'RTAMT_VERIF',
            'enable': 'no hooks were needed: every seam is at the public API and operator state is read by introspection; the guard name is reserved only',
            'baseline_off_cmd': 'cd /repo && /venv/bin/python -m pytest -ra -q -p no:cacheprovider --timeout=900 --continue-on-collection-errors',
            'source_commits': [],
            'add_only': True,
        },
        'engines': [{'name': 'sim', 'path': '/verif/sim', 'serves_properties': sorted(CHECKS),
                     'kind_free_text': 'own deterministic simulator in Python: seeded scenario generator, explicit JSON scenarios (= replay files), fault injection (clock, chunking, reset, truncation, noise, corruption, interleaving, hash seed), reference models, shrinker'}],
        'checks': checks,
        'not_applicable': sorted(na, key=lambda x: x['property_id']),
        'notes': 'See DESIGN.md. Exit 0 held / 1 VIOLATION / 2 harness error. Known findings in known_findings.jsonl.',
    }
    with open(os.path.join(HERE, 'MANIFEST.json'), 'w') as f:
        json.dump(m, f, indent=1)
        f.write('\n')

if __name__ == '__main__':
    main()
