#!/venv/bin/python
"""False-alarm test: applies every behaviour-preserving change under /verif/benign/<id>/patch.diff to a scratch worktree of
/repo (under /tmp, removed afterwards), confirms that the pinned suite still passes and runs the quick checks with
VERIF_REPO=<scratch>. Every check must exit 0 without a VIOLATION line; anything else is a false alarm of the machinery.

usage: run_benign.py [--only B1,B5] [--checks C01,C05]
Writes /verif/evidence/benign.json.
"""
import os
import sys
import json
import glob
import time
import shutil
import subprocess

VERIF = os.path.dirname(os.path.dirname(os.path.abspath(__file__)))
PY = '/venv/bin/python'


def sh(cmd, **kw):
    return subprocess.run(cmd, shell=True, capture_output=True, text=True, **kw)


def main():
    args = sys.argv[1:]
    only = args[args.index('--only') + 1].split(',') if '--only' in args else None
    manifest = json.load(open(os.path.join(VERIF, 'MANIFEST.json')))
    checks = [c['property_id'] for c in manifest['checks']]
    if '--checks' in args:
        checks = args[args.index('--checks') + 1].split(',')
    out_path = os.path.join(VERIF, 'evidence', 'benign.json')
    results = {}
    if os.path.exists(out_path):
        try:
            results = dict((r['id'], r) for r in json.load(open(out_path))['results'])
        except Exception:
            results = {}
    for d in sorted(glob.glob(os.path.join(VERIF, 'benign', '*', 'patch.diff'))):
        bid = os.path.basename(os.path.dirname(d))
        if only and bid not in only:
            continue
        wt = '/tmp/benign_wt_%s' % bid
        sh('git -C /repo worktree remove --force %s' % wt)
        shutil.rmtree(wt, ignore_errors=True)
        sh('git -C /repo worktree add -q --detach %s HEAD' % wt)
        rec = {'id': bid}
        try:
            ap = sh('git -C %s apply %s' % (wt, d))
            rec['applies'] = ap.returncode == 0
            if not rec['applies']:
                rec['error'] = ap.stderr[-300:]
                results[bid] = rec
                continue
            suite = sh('cd %s && %s -m pytest -q -p no:cacheprovider --timeout=900 --continue-on-collection-errors 2>&1 | tail -1' % (wt, PY))
            rec['suite'] = suite.stdout.strip()
            alarms = {}
            for pid in checks:
                t0 = time.time()
                env = dict(os.environ, VERIF_REPO=wt, VERIF_SEED=os.environ.get('VERIF_SEED', '0'),
                           VERIF_EVIDENCE_DIR='/tmp/benign_evidence', VERIF_REPLAY_DIR='/tmp/benign_replays_%s' % bid)
                p = subprocess.run([os.path.join(VERIF, 'check'), pid, '--tier', 'quick'], env=env, capture_output=True, text=True,
                                   cwd=VERIF, timeout=7200)
                nv = len([l for l in p.stdout.splitlines() if l.startswith('VIOLATION')])
                if p.returncode != 0 or nv:
                    alarms[pid] = {'rc': p.returncode, 'violations': nv,
                                   'first': [l.strip()[:400] for l in p.stdout.splitlines() if 'clause=' in l or 'HARNESS' in l][:2],
                                   'wall_s': round(time.time() - t0, 1)}
            rec['checks_run'] = checks
            rec['alarms'] = alarms
        finally:
            sh('git -C /repo worktree remove --force %s' % wt)
            shutil.rmtree(wt, ignore_errors=True)
        results[bid] = rec
        print(bid, 'suite=%s' % rec.get('suite'), 'alarms=%s' % (sorted(rec.get('alarms', {})) or 'none'))
        sys.stdout.flush()
    with open(out_path, 'w') as f:
        json.dump({'note': 'behaviour-preserving changes (benign/<id>/): quick checks that did NOT stay silent (must be none)',
                   'results': [results[k] for k in sorted(results)]}, f, indent=1, sort_keys=True)
    shutil.rmtree('/tmp/benign_evidence', ignore_errors=True)


if __name__ == '__main__':
    main()
